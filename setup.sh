#!/bin/bash
# setup_cmd: build the harness and the CLI (with the observation hook) from files on disk only.
set -e
cd "$(dirname "$0")"
export CARGO_NET_OFFLINE=true
python3 - <<'PY'
import sys
sys.path.insert(0, ".")
from qv import common
try:
    common.build()
except common.HarnessError as e:
    print("setup failed:", e, file=sys.stderr)
    sys.exit(2)
PY
echo "setup ok"
