"""Documents whose bindings are generated programs (gen_expr), their states and drivers."""
import re

from . import cxxrun, gen_expr as ge, strings

# `peer2` is an object id that is ALSO the name of a pointer property of the objects owning the bindings (VfWidget::peer2):
# a bare `peer2` denotes the object with that id, `this.peer2` / `a.peer2` the property
SOURCES = [("a", "VfWidget"), ("b", "VfWidget"), ("c", "VfSub"), ("spin", "QSpinBox"), ("chk", "QCheckBox"),
           ("edit", "QLineEdit"), ("peer2", "VfSub")]
OWNER_FREE = [("ival3", ge.INT), ("bval2", ge.BOOL), ("sval2", ge.STR), ("uval2", ge.UINT), ("dval2", ge.DOUBLE)]
VF_ALL = [(p, t) for t, ps in ge.VF_PROPS.items() for p in ps]
VF_EXTRA = [("vval", "variant")]   # QVariant-typed property: a state holds (kind, value), kind one of ge.VARIANT_KINDS
QT_STATE = {"spin": [("value", ge.INT)], "chk": [("checked", ge.BOOL)], "edit": [("text", ge.STR)]}

INT_POOL = [0, 1, -1, 2, 3, 5, 7, 10, 31, 32, 33, 100, 255, -128, 1000, 46340, 46341, 65535, 65536, ge.INT_MAX, ge.INT_MIN,
            ge.INT_MAX - 1, ge.INT_MIN + 1, -7, 12345]
UINT_POOL = [0, 1, 2, 7, 31, 32, 100, 65535, 65536, ge.UINT_MAX, ge.UINT_MAX - 1, 2 ** 31]
DBL_POOL = [0.0, 0.5, 1.0, -1.0, 1.5, 2.25, -2.5, 100.0, 1e3, 1e-3, 0.1, 3.75, 1e10, -1e10, 123456.789, 2147483648.0, -2147483649.0]
STR_POOL = ["", "a", "b", "ab", "abc", "x", "Hello", "%1", "é", "z", "A", "0", " ", "\U0001F600", "\ufffd", "\U00010000", "a b", "ABC", "aa", "%2 %1"]


class Binding:
    def __init__(self, target, prop, t, prog, src):
        self.target, self.prop, self.t, self.prog, self.src = target, prop, t, prog, src
        self.func = None


class ExprDoc:
    def __init__(self, rng, n_targets=3, types=None, hostile_strings=False, max_depth=4, kinds=None, profile="dynamic",
                 void_path_hazard=False, cascade=False, gadget_members=False, doc_casts=False):
        self.rng = rng
        self.doc_casts = doc_casts
        self.objects = [ge.ObjSpec(i, c) for i, c in SOURCES]
        self.targets = ["t%d" % k for k in range(n_targets)]
        self.features = set()
        self.bindings = []
        types = types or ge.VALUE_TYPES
        bound = []   # (target id, property, type) bound so far: later targets may read them (acyclic by construction)
        for tg in self.targets:
            env = ge.Env(self.objects, owner=ge.ObjSpec(tg, "VfWidget"), owner_free=OWNER_FREE,
                         value_only=[x for x in bound if x[2] not in (ge.PTR, ge.SLIST)] if cascade else ())
            g = ge.Gen(rng, env, profile=profile, max_depth=max_depth, hostile_strings=hostile_strings, features=self.features)
            g.void_path_hazard = void_path_hazard
            g.doc_casts = doc_casts
            g.no_state_methods = cascade
            if cascade:
                g.chain_bias, g.chain_extra = 0.35, 1
            for t in types:
                kind = rng.choice(kinds) if kinds else None
                if cascade and rng.random() < 0.15:
                    kind = "repoint-local"
                elif profile == "dynamic" and doc_casts and t != ge.PTR and t != ge.MODE and rng.random() < 0.07:
                    kind = "const-alias"
                elif profile == "dynamic" and t in (ge.SLIST, ge.STR, ge.BOOL) and rng.random() < 0.1:
                    kind = "list-build"
                elif profile == "dynamic" and not kinds and t in (ge.INT, ge.STR, ge.BOOL) and rng.random() < 0.06:
                    # (entered at the later clause this program reads a not yet assigned variable - undefined, never executed; the
                    # documents of C06, which demand definite assignment of every local, do not use it)
                    kind = "switch-fallthrough-let"
                g.has_void_path = False
                prog = g.program(t, kind)
                src = ge.print_program(prog, rng)
                self.bindings.append(Binding(tg, ge.TARGET_PROP[t], t, prog, src))
                self.bindings[-1].ill_typed = g.has_void_path
            bound += [(tg, ge.TARGET_PROP[t], t) for t in types]
            if gadget_members:
                # grouped (gadget) member bindings are translated by their own code path: same programs, other emitter
                for prop, t in (("font.bold", ge.BOOL), ("font.pointSize", ge.INT), ("font.family", ge.STR), ("font.italic", ge.BOOL)):
                    if rng.random() < 0.5:
                        g.has_void_path = False
                        prog = g.program(t, rng.choice(kinds) if kinds else None)
                        self.bindings.append(Binding(tg, prop, t, prog, ge.print_program(prog, rng)))
                        self.bindings[-1].ill_typed = g.has_void_path
        self.source = self.to_qml()

    def to_qml(self, skip=()):
        L = ["import qmluic.QtWidgets", "QWidget {", "    id: root"]
        for i, c in SOURCES:
            L.append("    %s { id: %s }" % (c, i))
        pos = len("\n".join(L).encode("utf-8")) + 1
        for tg in self.targets:
            for line in ("    VfWidget {", "        id: %s" % tg):
                L.append(line)
                pos += len(line.encode("utf-8")) + 1
            for b in self.bindings:
                if b.target == tg and b not in skip:
                    line = "        %s: %s" % (b.prop, b.src)
                    b.span = (pos, pos + len(line.encode("utf-8")))
                    L.append(line)
                    pos += len(line.encode("utf-8")) + 1
            L.append("    }")
            pos += 6
        L += ["}", ""]
        return "\n".join(L)

    def drop_rejected(self, diagnostics):
        """Remove the bindings that hold an error diagnostic; returns the removed ones."""
        bad = []
        for b in self.bindings:
            sp = getattr(b, "span", None)
            if sp and any(d["kind"] == "error" and sp[0] <= d["start"] <= sp[1] for d in diagnostics):
                bad.append(b)
        if bad:
            self.bindings = [b for b in self.bindings if b not in bad]
            self.source = self.to_qml()
        return bad

    # ---- states
    def literal_pool(self):
        ints, strs = set(), set()
        for b in self.bindings:
            for n in b.prog.walk():
                if n.k == "lit" and n.t in (ge.INT, ge.UINT):
                    ints.add(n.v[0])
                if n.k == "lit" and n.t == ge.STR:
                    strs.add(n.v[0])
        return sorted(ints), sorted(strs)

    def make_states(self, n):
        rng = self.rng
        lints, lstrs = self.literal_pool()
        ids = [o.id for o in self.objects if o.is_vf()]
        states = []
        for k in range(n):
            st = {}
            mild = (k % 3 == 0)   # small values: most evaluations defined
            for o in self.objects:
                if o.is_vf():
                    st[o.id] = self.vf_state(mild, lints, lstrs, ids)
                else:
                    st[o.id] = {}
                    for p, t in QT_STATE[o.id]:
                        st[o.id][p] = self.value(t, mild, lints, lstrs, ids)
            for tg in self.targets:
                st[tg] = self.vf_state(mild, lints, lstrs, ids)
            states.append(st)
        return states

    def vf_state(self, mild, lints, lstrs, ids):
        st = {p: self.value(t, mild, lints, lstrs, ids) for p, t in VF_ALL}
        if getattr(self, "doc_casts", False):
            kind = self.rng.choice(ge.VARIANT_KINDS)
            st["vval"] = (kind, self.value(kind, mild, lints, lstrs, ids))
        return st

    def value(self, t, mild, lints, lstrs, ids):
        rng = self.rng
        if t == ge.BOOL:
            return rng.random() < 0.5
        if t == ge.INT:
            if lints and rng.random() < 0.25:
                v = rng.choice(lints) + rng.choice((0, 0, 1, -1))
                return max(ge.INT_MIN, min(ge.INT_MAX, v))
            return rng.randint(-20, 40) if mild else rng.choice(INT_POOL)
        if t == ge.UINT:
            if lints and rng.random() < 0.25:
                return max(0, min(ge.UINT_MAX, rng.choice(lints)))
            return rng.randint(0, 40) if mild else rng.choice(UINT_POOL)
        if t == ge.DOUBLE:
            return float(rng.choice((0.0, 0.5, 1.0, 2.0, 2.25, -1.5))) if mild else rng.choice(DBL_POOL)
        if t == ge.STR:
            if lstrs and rng.random() < 0.3:
                return rng.choice(lstrs)
            return rng.choice(STR_POOL)
        if t == ge.MODE:
            return rng.randrange(4)
        if t == ge.PTR:
            return rng.choice(ids + ([None] if not mild else []) + ids)
        if t == ge.SLIST:
            return [rng.choice(STR_POOL) for _ in range(rng.choice((0, 1, 2, 3, 5) if not mild else (2, 3, 5)))]
        raise ValueError(t)

    # ---- mapping to generated functions
    def state_dependent(self, b, states):
        """-> (v1, v2) two different defined reference values of binding b over `states`, or None if it is state independent there."""
        seen = []
        for st in states:
            try:
                val, _ = ge.evaluate(b.prog, st, owner=b.target)
            except ge.Undefined:
                continue
            enc = cxxrun.encode_expected(b.t, val)
            if seen and enc != seen[0]:
                return seen[0], enc
            if not seen:
                seen.append(enc)
        return None

    def resolve_functions(self, header):
        names = set(re.findall(r"\beval(\w+)\(\)", header))
        missing = []
        for b in self.bindings:
            want = b.target[:1].upper() + b.target[1:] + "".join(x[:1].upper() + x[1:] for x in b.prop.split("."))
            if want in names:
                b.func = want
            else:
                b.func = None
                missing.append(want)
        return missing


def state_setup_code(st, indent="    "):
    """C++ statements writing a state into the model fields without notifications."""
    L = []
    for oid, props in st.items():
        for p, v in props.items():
            t = type_of_prop(oid, p)
            L.append("%sui.%s->m_%s = %s;" % (indent, oid, p, cxxrun.cxx_literal(t, v)))
    return L


def type_of_prop(oid, p):
    for pp, t in VF_ALL + VF_EXTRA:
        if pp == p and oid not in QT_STATE:
            return t
    for pp, t in QT_STATE.get(oid, []):
        if pp == p:
            return t
    raise KeyError((oid, p))


DRIVER_HEAD = """#include "qtmodel.h"
#include <QtDebug>
#include <algorithm>
#include "vfstate.h"
#define private public
#include "uisupport_mytype.h"
#undef private
"""


def driver_eval(doc, states, plan):
    """Small, data-driven driver: states and the plan of defined (state, binding) pairs are read from files."""
    L = [DRIVER_HEAD, "int main() {", "    QWidget root;", "    Ui::MyType ui;", "    ui.setupUi(&root);",
         "    UiSupport::MyType sup(&root, &ui);", "    std::map<std::string, QObject *> objs;"]
    for oid in [o.id for o in doc.objects] + doc.targets:
        L.append("    objs[\"%s\"] = ui.%s;" % (oid, oid))
    L.append("    std::vector<std::function<std::string()>> evals;")
    for b in doc.bindings:
        if b.func:
            L.append("    evals.push_back([&]() { return qvm::show(sup.eval%s()); });" % b.func)
        else:
            L.append("    evals.push_back([&]() { return std::string(\"null\"); });")
    L.append("    return qvm_run_eval_plan(objs, evals);")
    L.append("}")
    return "\n".join(L) + "\n"


def write_plan_files(d, doc, states, plan):
    """states.txt: `S <si>` then `<obj> <prop> <type> <value>` lines; plan.txt: `<si> <bi>` lines."""
    import os
    with open(os.path.join(d, "states.txt"), "w") as f:
        for si, st in enumerate(states):
            f.write("S %d\n" % si)
            for oid, props in st.items():
                for p, v in props.items():
                    f.write("%s %s %s\n" % (oid, p, encode_state_value(type_of_prop(oid, p), v)))
    with open(os.path.join(d, "plan.txt"), "w") as f:
        for si, bis in plan:
            for bi in bis:
                f.write("%d %d\n" % (si, bi))


def encode_state_value(t, v):
    if t == "variant":
        return "v " + encode_state_value(v[0], v[1])
    if t == ge.BOOL:
        return "b %d" % (1 if v else 0)
    if t == ge.INT:
        return "i %d" % v
    if t == ge.UINT:
        return "u %d" % v
    if t == ge.DOUBLE:
        return "d %s" % ge.double_bits(v)
    if t == ge.STR:
        return "s %s" % ",".join(str(u) for u in strings.utf16_units(v))
    if t == ge.MODE:
        return "e %d" % v
    if t == ge.PTR:
        return "o %s" % (v if v is not None else "null")
    if t == ge.SLIST:
        return "l %s" % ";".join(",".join(str(u) for u in strings.utf16_units(x)) or "-" for x in v) if v else "l"
    raise ValueError(t)


VFSTATE_H = r"""// State loader of the drivers: writes model fields quietly (no notification), from a text file.
#pragma once
#include "qtmodel.h"
#include <fstream>
#include <sstream>
#include <map>

inline QString qvm_units(const std::string &s) {
    QString r;
    if (s.empty() || s == "-") return r;
    std::stringstream ss(s);
    std::string tok;
    while (std::getline(ss, tok, ',')) r.d.push_back((char16_t)std::stoul(tok));
    return r;
}

inline bool qvm_set_field(std::map<std::string, QObject *> &objs, const std::string &oid, const std::string &prop,
                          const std::string &ty, const std::string &val) {
    QObject *o = objs[oid];
    if (!o) return false;
    if (auto *w = dynamic_cast<VfWidget *>(o)) {
@VF_FIELDS@
        return false;
    }
    if (auto *w = dynamic_cast<QSpinBox *>(o)) { if (prop == "value") { w->m_value = std::stoi(val); return true; } }
    if (auto *w = dynamic_cast<QAbstractButton *>(o)) { if (prop == "checked") { w->m_checked = val == "1"; return true; } }
    if (auto *w = dynamic_cast<QLineEdit *>(o)) { if (prop == "text") { w->m_text = qvm_units(val); return true; } }
    (void)ty;
    return false;
}

struct QvmStates {
    std::vector<std::vector<std::vector<std::string>>> states;   // [si] -> list of {obj, prop, type, value}
    bool load(const char *path) {
        std::ifstream f(path);
        if (!f) return false;
        std::string line;
        while (std::getline(f, line)) {
            std::stringstream ss(line);
            std::string a, b, c, d;
            ss >> a >> b;
            if (a == "S") { states.emplace_back(); continue; }
            ss >> c;
            std::getline(ss, d);
            if (!d.empty() && d[0] == ' ') d.erase(0, 1);
            states.back().push_back({a, b, c, d});
        }
        return true;
    }
    bool apply(std::map<std::string, QObject *> &objs, size_t si) {
        bool ok = true;
        for (auto &r : states[si]) ok = qvm_set_field(objs, r[0], r[1], r[2], r[3]) && ok;
        return ok;
    }
};

inline void qvm_dump(std::map<std::string, QObject *> &objs) {
    std::string s = "\"ev\":\"dump\",\"state\":{";
    bool firsto = true;
    for (auto &kv : objs) {
        QObject *o = kv.second;
        if (!o) continue;
        std::string body;
        if (auto *w = dynamic_cast<VfWidget *>(o)) {
@VF_DUMP@
        } else if (auto *w = dynamic_cast<QSpinBox *>(o)) {
            body += "\"value\":" + qvm::show(w->m_value);
        } else if (auto *w = dynamic_cast<QAbstractButton *>(o)) {
            body += "\"checked\":" + qvm::show(w->m_checked);
        } else if (auto *w = dynamic_cast<QLineEdit *>(o)) {
            body += "\"text\":" + qvm::show(w->m_text);
        } else continue;
        s += (firsto ? "\"" : ",\"") + kv.first + "\":{" + body + "}";
        firsto = false;
    }
    qvm::put(s + "}");
}

inline int qvm_run_eval_plan(std::map<std::string, QObject *> &objs, std::vector<std::function<std::string()>> &evals) {
    QvmStates st;
    if (!st.load("states.txt")) return 90;
    std::ifstream plan("plan.txt");
    size_t si, bi, cur = (size_t)-1;
    while (plan >> si >> bi) {
        if (si != cur) {
            qvm::quiet() = true;
            if (!st.apply(objs, si)) { qvm::quiet() = false; qvm::tag() = "setup"; qvm::put("\"ev\":\"bad-state\""); return 91; }
            qvm::quiet() = false;
            cur = si;
        }
        qvm::tag() = "s" + std::to_string(si) + ".b" + std::to_string(bi);
        qvm::put("\"ev\":\"begin\"");
        std::string r = evals[bi]();
        qvm::put("\"ev\":\"result\",\"value\":" + r);
    }
    qvm::tag() = "end";
    qvm::put("\"ev\":\"done\"");
    return 0;
}
"""


def vfstate_header():
    L = []
    for p, t in VF_ALL:
        if t == ge.BOOL:
            conv = "val == \"1\""
        elif t == ge.INT:
            conv = "std::stoi(val)"
        elif t == ge.UINT:
            conv = "(uint)std::stoul(val)"
        elif t == ge.DOUBLE:
            L.append("        if (prop == \"%s\") { uint64_t b = std::stoull(val, nullptr, 16); double d; memcpy(&d, &b, 8); w->m_%s = d; return true; }" % (p, p))
            continue
        elif t == ge.STR:
            conv = "qvm_units(val)"
        elif t == ge.MODE:
            conv = "(VfWidget::Mode)std::stoi(val)"
        elif t == ge.PTR:
            L.append("        if (prop == \"%s\") { w->m_%s = val == \"null\" ? nullptr : dynamic_cast<VfWidget *>(objs[val]); return true; }" % (p, p))
            continue
        elif t == ge.SLIST:
            L.append("        if (prop == \"%s\") { QStringList l; std::stringstream ss(val); std::string tok; while (std::getline(ss, tok, ';')) l.v.push_back(qvm_units(tok)); w->m_%s = l; return true; }" % (p, p))
            continue
        L.append("        if (prop == \"%s\") { w->m_%s = %s; return true; }" % (p, p, conv))
    # vval: `<kind letter> <value>` with the encodings of the plain types
    L.append("        if (prop == \"vval\") { std::string k = val.substr(0, 1), r = val.size() > 2 ? val.substr(2) : std::string();"
             " if (k == \"b\") w->m_vval = QVariant(r == \"1\"); else if (k == \"i\") w->m_vval = QVariant(std::stoi(r));"
             " else if (k == \"u\") w->m_vval = QVariant((uint)std::stoul(r));"
             " else if (k == \"d\") { uint64_t b = std::stoull(r, nullptr, 16); double d; memcpy(&d, &b, 8); w->m_vval = QVariant(d); }"
             " else if (k == \"s\") w->m_vval = QVariant(qvm_units(r)); else return false; return true; }")
    D = []
    for i, (p, t) in enumerate(VF_ALL):
        D.append("            body += std::string(%s\"\\\"%s\\\":\") + qvm::show(w->m_%s);" % ("" if i == 0 else "\",\" ", p, p))
    # members of the inherited QWidget::font (targets of grouped bindings)
    for m in ("bold", "italic", "pointSize", "family"):
        D.append("            body += std::string(\",\\\"font.%s\\\":\") + qvm::show(w->m_font.m_%s);" % (m, m))
    return VFSTATE_H.replace("@VF_FIELDS@", "\n".join(L)).replace("@VF_DUMP@", "\n".join(D))
