"""Shared plumbing of the /verif checks: build, harness runner, evidence, verdicts."""
import fcntl
import hashlib
import json
import os
import random
import resource
import shutil
import signal
import subprocess
import sys
import time

ROOT = os.path.dirname(os.path.dirname(os.path.abspath(__file__)))
REPO = os.environ.get("VERIF_REPO", "/repo")
BUILD = os.path.join(ROOT, ".build")
WORK = os.path.join(ROOT, ".work")
REPLAYS = os.path.join(ROOT, "replays")
EVIDENCE = os.path.join(ROOT, "evidence")
TARGET = os.path.join(BUILD, "target")
QVH = os.path.join(TARGET, "release", "qvh")
CLI = os.path.join(TARGET, "release", "qmluic")
METATYPES = os.path.join(REPO, "contrib", "metatypes")
VF_TYPES = os.path.join(WORK, "types", "vf_metatypes.json")
NCPU = max(1, min(16, os.cpu_count() or 1))

CARGO_ENV = {
    "CARGO_NET_OFFLINE": "true",
    "CARGO_TARGET_DIR": TARGET,
    # one profile for harness and CLI so that dependency artefacts are shared;
    # assertions and overflow checks stay on: a wrapped index is a defect, not a pass
    "CARGO_PROFILE_RELEASE_DEBUG_ASSERTIONS": "true",
    "CARGO_PROFILE_RELEASE_OVERFLOW_CHECKS": "true",
    "CARGO_PROFILE_RELEASE_DEBUG": "1",
}

CPU_BUDGET_S = 10.0  # per translation / query; median is a few ms


class HarnessError(Exception):
    """The machinery itself failed (build, tool crash): exit 2, never a verdict."""


def log(*a):
    print(*a, file=sys.stderr, flush=True)


def _locked(path):
    os.makedirs(os.path.dirname(path), exist_ok=True)
    f = open(path, "w")
    fcntl.flock(f, fcntl.LOCK_EX)
    return f


def build():
    """(Re)build harness, CLI and synthetic type information from /repo's working tree."""
    os.makedirs(BUILD, exist_ok=True)
    os.makedirs(WORK, exist_ok=True)
    lock = _locked(os.path.join(BUILD, "build.lock"))
    try:
        env = dict(os.environ)
        env.update(CARGO_ENV)
        t0 = time.time()
        for what, cmd in (
            ("harness", ["cargo", "build", "--offline", "--release", "--quiet",
                         "--manifest-path", os.path.join(ROOT, "harness", "Cargo.toml")]),
            ("cli", ["cargo", "build", "--offline", "--release", "--quiet", "--bin", "qmluic",
                     "--features", "yuja_qmluic_verif",
                     "--manifest-path", os.path.join(REPO, "Cargo.toml")]),
        ):
            p = subprocess.run(cmd, env=env, stdout=subprocess.PIPE, stderr=subprocess.STDOUT, text=True)
            if p.returncode != 0:
                raise HarnessError("cargo build of %s failed:\n%s" % (what, p.stdout[-4000:]))
        from . import vftypes
        vftypes.write(VF_TYPES)
        log("[build] ok in %.1fs" % (time.time() - t0))
    finally:
        lock.close()


def type_paths():
    return [METATYPES, VF_TYPES]


def rng_for(seed, *tags):
    h = hashlib.sha256(("%s|%s" % (seed, "|".join(str(t) for t in tags))).encode()).digest()
    return random.Random(int.from_bytes(h[:8], "big"))


def seed_from_env():
    try:
        return int(os.environ.get("VERIF_SEED", "1"))
    except ValueError:
        return 1


def workdir(name):
    d = os.path.join(WORK, name)
    shutil.rmtree(d, ignore_errors=True)
    os.makedirs(d, exist_ok=True)
    return d


MEM_BUDGET_BYTES = 8 << 30
CRASH_SIGNALS = (-signal.SIGABRT, -signal.SIGSEGV, -signal.SIGBUS, -signal.SIGILL, -signal.SIGFPE)


def _limit_cpu(seconds):
    def f():
        resource.setrlimit(resource.RLIMIT_CPU, (int(seconds), int(seconds) + 5))
        resource.setrlimit(resource.RLIMIT_CORE, (0, 0))
        # memory budget: a translation that asks for more than this fails its allocation and aborts (observed as a crash of that
        # job) instead of taking the machine down; ordinary jobs need well below 1 % of it
        resource.setrlimit(resource.RLIMIT_AS, (MEM_BUDGET_BYTES, MEM_BUDGET_BYTES))
    return f


class ShardOutcome:
    def __init__(self):
        self.results = {}      # id -> list of result dicts
        self.cpu_violations = []  # ids whose translation exceeded the CPU budget
        self.cpu_in_parser = []   # subset: UiDocument::parse alone exceeds the budget (time is spent in the tree-sitter call)
        self.inconclusive = []    # (id, why)
        self.crashes = []         # (id, status, stderr tail): the job alone killed the process with a crash signal (also in inconclusive)


def _run_jobs_file(subcmd, jobs, tag, extra_args, cpu_limit, wall_limit):
    """Run one qvh process over `jobs`; returns (results list, unfinished id or None, status)."""
    d = os.path.join(WORK, "shards")
    os.makedirs(d, exist_ok=True)
    jp = os.path.join(d, "%s.jobs.jsonl" % tag)
    op = os.path.join(d, "%s.out.jsonl" % tag)
    with open(jp, "w") as f:
        for j in jobs:
            f.write(json.dumps(j, ensure_ascii=False))
            f.write("\n")
    if os.path.exists(op):
        os.unlink(op)
    cmd = [QVH, subcmd] + extra_args + ["--jobs", jp, "--out", op]
    try:
        p = subprocess.run(cmd, stdout=subprocess.PIPE, stderr=subprocess.PIPE, text=True,
                           preexec_fn=_limit_cpu(cpu_limit), timeout=wall_limit)
        status = p.returncode
        err = p.stderr
    except subprocess.TimeoutExpired:
        status = "wall"
        err = "wall-clock watchdog"
    results, begun = [], None
    if os.path.exists(op):
        with open(op, errors="replace") as f:
            for line in f:
                line = line.strip()
                if not line:
                    continue
                try:
                    v = json.loads(line)
                except ValueError:
                    continue  # torn last line of a killed process
                if "begin" in v:
                    begun = v["begin"]
                else:
                    results.append(v)
    # the files have been read: they are scratch (a violation carries its own replay data), and a thorough run writes gigabytes
    for x in (jp, op):
        try:
            os.unlink(x)
        except OSError:
            pass
    return results, begun, status, err


def run_harness(subcmd, jobs, extra_args=(), shards=None, results_per_job=None, tag="h"):
    """Run jobs (dicts with unique 'id') through qvh in parallel shards.

    Returns ShardOutcome.  A shard that dies is resumed after the job it was in; that job is
    re-run alone under the CPU budget: dying again with SIGXCPU is a budget violation, any
    other death is a harness problem reported as inconclusive.
    """
    from concurrent.futures import ThreadPoolExecutor
    extra_args = list(extra_args)
    shards = shards or NCPU
    shards = max(1, min(shards, len(jobs) or 1))
    out = ShardOutcome()
    chunks = [jobs[i::shards] for i in range(shards)]

    def expected(j):
        if results_per_job is not None:
            return results_per_job(j)
        return 1

    def run_chunk(k):
        chunk = chunks[k]
        res_by_id = {}
        cpu_viol, inconc, in_parser, crashes = [], [], [], []
        pos = 0
        attempt = 0
        while pos < len(chunk):
            todo = chunk[pos:]
            cpu_limit = max(120, int(len(todo) * 0.75) + 60)
            results, begun, status, err = _run_jobs_file(
                subcmd, todo, "%s_%d_%d_%d" % (tag, os.getpid(), k, attempt), extra_args, cpu_limit, 3600)
            attempt += 1
            for r in results:
                res_by_id.setdefault(r["id"], []).append(r)
            if status == 0:
                break
            # find the job that was in flight
            ids = [j["id"] for j in todo]
            done = 0
            for j in todo:
                if len(res_by_id.get(j["id"], [])) >= expected(j):
                    done += 1
                else:
                    break
            culprit = todo[done] if done < len(todo) else None
            if culprit is None:
                break
            if status == 2 and begun is None:
                raise HarnessError("qvh failed to start: %s" % err[-2000:])
            res_by_id.pop(culprit["id"], None)
            r2, b2, s2, e2 = _run_jobs_file(
                subcmd, [culprit], "%s_%d_%d_single" % (tag, os.getpid(), k), extra_args, CPU_BUDGET_S, 600)
            if s2 == 0:
                for r in r2:
                    res_by_id.setdefault(r["id"], []).append(r)
            elif s2 in (-signal.SIGXCPU, -signal.SIGKILL):
                cpu_viol.append(culprit["id"])
                if subcmd == "translate" and not culprit.get("path"):
                    # attribute: does the parser call alone exceed the budget?
                    r3, b3, s3, e3 = _run_jobs_file(
                        subcmd, [dict(culprit, parse_only=True)], "%s_%d_%d_parse" % (tag, os.getpid(), k), extra_args, CPU_BUDGET_S, 600)
                    if s3 in (-signal.SIGXCPU, -signal.SIGKILL):
                        in_parser.append(culprit["id"])
            else:
                if s2 in CRASH_SIGNALS:
                    # the job killed the process again when run alone: a crash of the code under test (abort on a failed
                    # allocation, stack overflow ...); C07 judges it, for every other check the job has no verdict
                    crashes.append((culprit["id"], s2, (e2 or "")[-500:]))
                inconc.append((culprit["id"], "qvh died with status %r: %s" % (s2, (e2 or "")[-500:])))
            pos += done + 1
            if len(cpu_viol) >= 2 and pos < len(chunk):
                # two witnesses per shard settle the verdict; a change that makes MANY jobs run away would otherwise cost one shard
                # budget per job (a check must end in minutes even then): the rest of the shard has no verdict
                inconc.extend((j["id"], "skipped: two jobs of this shard had already exceeded the CPU budget") for j in chunk[pos:])
                break
        return res_by_id, cpu_viol, inconc, in_parser, crashes

    with ThreadPoolExecutor(max_workers=shards) as ex:
        for res_by_id, cpu_viol, inconc, in_parser, crashes in ex.map(run_chunk, range(shards)):
            out.crashes.extend(crashes)
            out.results.update(res_by_id)
            out.cpu_violations.extend(cpu_viol)
            out.cpu_in_parser.extend(in_parser)
            out.inconclusive.extend(inconc)
    for rs in out.results.values():
        for r in rs:
            if r.get("cpu_ms", 0) > CPU_BUDGET_S * 1000:
                out.cpu_violations.append(r["id"])
    return out


def translate(jobs, shards=None, tag="t"):
    """jobs: dicts {id, source, modes, reps, want, ...}. Returns ShardOutcome."""
    # a job may use up to 3 x its budget of the shard's CPU time before the shard is cut short; it is then re-run alone
    # under the budget proper (per mode and repetition, hence the factor)
    args = ["--job-cpu-ms", str(int(CPU_BUDGET_S * 1000 * 3)), "--types"] + type_paths()
    return run_harness("translate", jobs, args, shards,
                       results_per_job=lambda j: len(j.get("modes", ["generate"])) * j.get("reps", 1), tag=tag)


def by_mode(results):
    """list of results of one job -> {mode: [results by rep]}"""
    d = {}
    for r in results:
        d.setdefault(r["mode"], []).append(r)
    return d


# ----------------------------------------------------------------------------------------------
# verdicts, known findings, evidence

class Verdict:
    def __init__(self, prop, tier, seed, level="exploration"):
        self.prop, self.tier, self.seed, self.level = prop, tier, seed, level
        self.t0 = time.time()
        self.violations = []     # (signature, replay path, summary)
        self.known_hits = {}     # finding line -> count
        self.inconclusive = []
        self.coverage = {}
        self.assumptions = []
        self.known = load_known_findings(prop)
        self._replay_n = 0

    def violation(self, sig, summary, replay):
        """Record a violation unless `sig` is a listed open finding."""
        for kf in self.known:
            if kf["sig"] == sig:
                self.known_hits[kf["sig"]] = self.known_hits.get(kf["sig"], 0) + 1
                return False
        if len(self.violations) >= 200:
            self.violations.append((sig, None, summary))
            return True
        os.makedirs(REPLAYS, exist_ok=True)
        self._replay_n += 1
        path = os.path.join(REPLAYS, "%s_%s_%d_%03d.json" % (self.prop, self.tier, self.seed, self._replay_n))
        doc = {"property": self.prop, "signature": sig, "summary": summary, "tier": self.tier, "seed": self.seed}
        doc.update(replay or {})
        with open(path, "w") as f:
            json.dump(doc, f, indent=1, ensure_ascii=False, default=str)
        self.violations.append((sig, path, summary))
        return True

    def inconc(self, what):
        self.inconclusive.append(str(what)[:300])

    def finish(self, evaluations, distinct_nontrivial, rule, samples, floor=2, **extra):
        cov = {
            "evaluations": int(evaluations),
            "distinct_nontrivial": int(distinct_nontrivial),
            "rule": rule,
            "samples": samples[:5] if samples else [],
            "inconclusive": len(self.inconclusive),
            "inconclusive_samples": self.inconclusive[:5],
            "known_findings_observed": self.known_hits,
        }
        cov.update(self.coverage)
        cov.update(extra)
        ev = {
            "property_id": self.prop,
            "tier": self.tier,
            "seed": self.seed,
            "level": self.level,
            "coverage": cov,
            "assumptions": self.assumptions,
            "wall_s": round(time.time() - self.t0, 2),
            "violations": len(self.violations),
        }
        os.makedirs(EVIDENCE, exist_ok=True)
        tmp = os.path.join(EVIDENCE, ".%s.json.tmp" % self.prop)
        with open(tmp, "w") as f:
            json.dump(ev, f, indent=1, ensure_ascii=False, default=str)
        os.replace(tmp, os.path.join(EVIDENCE, "%s.json" % self.prop))
        for sig, n in sorted(self.known_hits.items()):
            what = next(k["what"] for k in self.known if k["sig"] == sig)
            print("KNOWN-FINDING: property=%s sig=%s observed=%d %s" % (self.prop, sig, n, what))
        seen = set()
        for sig, path, summary in self.violations:
            if path is None or sig in seen:
                continue
            seen.add(sig)
            print("VIOLATION property=%s replay=%s" % (self.prop, path))
            log("  [%s] %s" % (sig, summary[:400]))
        if self.violations:
            log("[%s] %d violation(s), %d distinct signature(s)" % (self.prop, len(self.violations), len(seen)))
            return 1
        if distinct_nontrivial < floor or not samples:
            log("[%s] harness error: observed too little (%d distinct non-trivial cases, floor %d)"
                % (self.prop, distinct_nontrivial, floor))
            return 2
        log("[%s] held on %d evaluations (%d distinct non-trivial), %d inconclusive, %.1fs"
            % (self.prop, evaluations, distinct_nontrivial, len(self.inconclusive), time.time() - self.t0))
        return 0


def load_known_findings(prop):
    """Lines: open: property=<id> sig=<signature> <what fails>  |  fixed: property=<id> <commit> <what>"""
    out = []
    p = os.path.join(ROOT, "KNOWN_FINDINGS.txt")
    if not os.path.exists(p):
        return out
    for line in open(p):
        line = line.strip()
        if not line.startswith("open:"):
            continue
        parts = line.split(None, 3)
        if len(parts) < 4:
            continue
        pid = parts[1].split("=", 1)[1]
        sig = parts[2].split("=", 1)[1]
        if pid == prop:
            out.append({"sig": sig, "what": parts[3]})
    return out


def shash(*parts):
    return hashlib.sha1("\x00".join(str(p) for p in parts).encode("utf-8", "replace")).hexdigest()[:16]
