"""Synthetic, user-supplied type information (`--foreign-types`) used by the workloads.

Qt's own classes lack, in convenient form, several property kinds the properties quantify
over (uint, double with notify, QStringList, QVariant, enum/flag, pointer chains, properties
without notify signal, constant and read-only ones, methods with return values, signals with
several arguments and default-argument families).  `VfWidget` carries them all.  The file is
a normal metatypes.json and goes through exactly the same loader as Qt's.
"""
import json
import os

# (name, type, read, write, notify, constant)
VF_PROPS = [
    ("ival", "int", "ival", "setIval", "ivalChanged", False),
    ("ival2", "int", "ival2", "setIval2", "ival2Changed", False),
    ("ival3", "int", "ival3", "setIval3", "ival3Changed", False),
    ("uval", "uint", "uval", "setUval", "uvalChanged", False),
    ("uval2", "uint", "uval2", "setUval2", "uval2Changed", False),
    ("dval", "double", "dval", "setDval", "dvalChanged", False),
    ("dval2", "double", "dval2", "setDval2", "dval2Changed", False),
    ("bval", "bool", "bval", "setBval", "bvalChanged", False),
    ("bval2", "bool", "bval2", "setBval2", "bval2Changed", False),
    ("sval", "QString", "sval", "setSval", "svalChanged", False),
    ("sval2", "QString", "sval2", "setSval2", "sval2Changed", False),
    ("slist", "QStringList", "slist", "setSlist", "slistChanged", False),
    ("vval", "QVariant", "vval", "setVval", "vvalChanged", False),
    ("mode", "VfWidget::Mode", "mode", "setMode", "modeChanged", False),
    ("mode2", "VfWidget::Mode", "mode2", "setMode2", "mode2Changed", False),
    ("opts", "VfWidget::Options", "opts", "setOpts", "optsChanged", False),
    ("peer", "VfWidget*", "peer", "setPeer", "peerChanged", False),
    ("peer2", "VfWidget*", "peer2", "setPeer2", "peer2Changed", False),
    ("wpeer", "QWidget*", "wpeer", "setWpeer", "wpeerChanged", False),
    ("peers", "QList<VfWidget*>", "peers", "setPeers", "peersChanged", False),
    ("nonotify", "int", "nonotify", "setNonotify", None, False),
    ("cval", "int", "cval", None, None, True),
    ("roval", "int", "roval", None, "rovalChanged", False),
    ("woval", "int", None, "setWoval", None, False),
    # name ending in a digit next to an id ending in a digit: function-name prefix collisions
    ("x1", "int", "x1", "setX1", "x1Changed", False),
    # names that spell <gadget property><Member> of the inherited QWidget::font: sub-binding / property name collisions
    ("fontFamily", "QString", "fontFamily", "setFontFamily", "fontFamilyChanged", False),
    ("fontBold", "bool", "fontBold", "setFontBold", "fontBoldChanged", False),
    # Qt 6 style bindable property without notify signal: reading it in a binding is unobservable for qmluic
    ("bindonly", "int", "bindonly", "setBindonly", None, False),
    # enum type written UNQUALIFIED, the way moc writes a type of the declaring class (QFrame::frameShape is "Shape")
    ("mode3", "Mode", "mode3", "setMode3", "mode3Changed", False),
]

VF_BINDABLE = {"bindonly": "bindableBindonly"}

# notify signals carrying the new value (default-argument family is given for some)
NOTIFY_WITH_ARG = {"bvalChanged": "bool", "svalChanged": "QString", "ival2Changed": "int"}

MODES = ["ModeA", "ModeB", "ModeC", "ModeD"]
OPTIONS = ["OptNone", "OptX", "OptY", "OptZ"]


def _prop(name, ty, read, write, notify, constant):
    d = {
        "name": name, "type": ty, "constant": constant, "designable": True, "final": False,
        "required": False, "scriptable": True, "stored": True, "user": False, "index": None,
    }
    if read:
        d["read"] = read
    if write:
        d["write"] = write
    if notify:
        d["notify"] = notify
    if name in VF_BINDABLE:
        d["bindable"] = VF_BINDABLE[name]
    return d


def _meth(name, ret="void", args=()):
    d = {"name": name, "access": "public", "returnType": ret}
    if args:
        d["arguments"] = [{"type": t, "name": n} for (t, n) in args]
    return d


def classes():
    signals = []
    for (name, ty, read, write, notify, constant) in VF_PROPS:
        if not notify:
            continue
        if notify in NOTIFY_WITH_ARG:
            signals.append(_meth(notify, args=[(NOTIFY_WITH_ARG[notify], "value")]))
        else:
            signals.append(_meth(notify))
    signals += [
        # a signal that merely LOOKS like the change signal of the notify-less property `nonotify` (nothing says the setter emits it)
        _meth("nonotifyChanged"),
        # several arguments of one type: a handler that takes the wrong one still type-checks
        _meth("paired", args=[("int", "a"), ("int", "b")]),
        _meth("named", args=[("QString", "a"), ("QString", "b"), ("QString", "c")]),
        _meth("fired"),
        # poked(int a, QString b = QString()) : default-argument family
        _meth("poked", args=[("int", "a")]),
        _meth("poked", args=[("int", "a"), ("QString", "b")]),
        # nudged(bool on = false)
        _meth("nudged"),
        _meth("nudged", args=[("bool", "on")]),
        _meth("triple", args=[("int", "a"), ("QString", "b"), ("bool", "c")]),
        _meth("told", args=[("QString", "s")]),
        _meth("pointed", args=[("VfWidget*", "w")]),
        _meth("ranked", args=[("uint", "u"), ("double", "d")]),
        _meth("moded", args=[("VfWidget::Mode", "m")]),
        # value-class (gadget) arguments: a handler parameter is a copy the handler may modify
        _meth("fonted", args=[("QFont", "f")]),
        _meth("fonted2", args=[("int", "n"), ("QFont", "f")]),
        # true overloads: must be rejected as callback target
        _meth("over", args=[("int", "a")]),
        _meth("over", args=[("QString", "a")]),
        # deep(int a, QString b = QString(), bool c = false): three entries, one signal
        _meth("deep", args=[("int", "a")]),
        _meth("deep", args=[("int", "a"), ("QString", "b")]),
        _meth("deep", args=[("int", "a"), ("QString", "b"), ("bool", "c")]),
        # families that share a prefix but then diverge: true overloads
        _meth("mixed", args=[("int", "a")]),
        _meth("mixed", args=[("int", "a"), ("bool", "b")]),
        _meth("mixed", args=[("int", "a"), ("QString", "b")]),
        _meth("mixed2"),
        _meth("mixed2", args=[("int", "a")]),
        _meth("mixed2", args=[("QString", "a")]),
        _meth("mixed3", args=[("int", "a")]),
        _meth("mixed3", args=[("int", "a"), ("int", "b")]),
        _meth("mixed3", args=[("int", "a"), ("QString", "b"), ("bool", "c")]),
    ]
    slots = []
    for (name, ty, read, write, notify, constant) in VF_PROPS:
        if write:
            slots.append(_meth(write, args=[(ty, "v")]))
    slots += [
        _meth("doIt"),
        _meth("take", args=[("int", "a")]),
        _meth("take2", args=[("int", "a"), ("QString", "b")]),
        _meth("takeS", args=[("QString", "s")]),
        _meth("takeB", args=[("bool", "b")]),
        _meth("takeD", args=[("double", "d")]),
        _meth("takeU", args=[("uint", "u")]),
        _meth("takeW", args=[("QWidget*", "w")]),
        _meth("takeMode", args=[("VfWidget::Mode", "m")]),
    ]
    methods = [
        _meth("twice", "int", [("int", "a")]),
        _meth("sum", "int", [("int", "a"), ("int", "b")]),
        _meth("greet", "QString", [("QString", "s")]),
        _meth("test", "bool", [("int", "a"), ("int", "b")]),
        _meth("half", "double", [("double", "d")]),
        _meth("other", "VfWidget*", []),
    ]
    vf = {
        "className": "VfWidget", "qualifiedClassName": "VfWidget", "object": True,
        "superClasses": [{"access": "public", "name": "QWidget"}],
        "enums": [
            {"name": "Mode", "isClass": False, "isFlag": False, "values": MODES},
            {"name": "Option", "isClass": False, "isFlag": False, "values": OPTIONS},
            {"name": "Options", "alias": "Option", "isClass": False, "isFlag": True, "values": OPTIONS},
            {"name": "Level", "isClass": True, "isFlag": False, "values": ["Low", "Mid", "High"]},     # enum class: VfWidget.Level.Low
        ],
        # (ilist is not part of VF_PROPS: no state is generated for it; it is there for the typing rules of non-string lists)
        "properties": [_prop(*p) for p in VF_PROPS] + [_prop("ilist", "QList<int>", "ilist", "setIlist", "ilistChanged", False)],
        "signals": signals + [_meth("ilistChanged")], "slots": slots + [_meth("setIlist", args=[("QList<int>", "v")])], "methods": methods,
    }
    sub = {
        "className": "VfSub", "qualifiedClassName": "VfSub", "object": True,
        "superClasses": [{"access": "public", "name": "VfWidget"}],
        "properties": [_prop("extra", "int", "extra", "setExtra", "extraChanged", False)],
        "signals": [_meth("extraChanged")],
        "slots": [_meth("setExtra", args=[("int", "v")])],
    }
    other = {
        "className": "VfOther", "qualifiedClassName": "VfOther", "object": True,
        "superClasses": [{"access": "public", "name": "QWidget"}],
        # an enum with the same unqualified name as the one VfWidget::Options wraps: another type altogether
        "enums": [{"name": "Option", "isClass": False, "isFlag": False, "values": ["Alt0", "Alt1"]}],
        "properties": [_prop("ival", "int", "ival", "setIval", "ivalChanged", False)],
        "signals": [_meth("ivalChanged")],
        "slots": [_meth("setIval", args=[("int", "v")])],
    }
    # a widget with a second, unresolvable public base (an interface class without type information): it IS a QWidget and
    # nothing else; the dangling base must neither hide QWidget's members nor make it convertible to unrelated classes
    plot = {
        "className": "VfPlot", "qualifiedClassName": "VfPlot", "object": True,
        "superClasses": [{"access": "public", "name": "QWidget"}, {"access": "public", "name": "IPlotDelegate"}],
        "properties": [_prop("level", "int", "level", "setLevel", "levelChanged", False)],
        "signals": [_meth("levelChanged")],
        "slots": [_meth("setLevel", args=[("int", "v")])],
    }
    # non-public inheritance of a KNOWN class: a VfHidden is a QWidget, and nothing that expects a VfWidget may take it
    hidden = {
        "className": "VfHidden", "qualifiedClassName": "VfHidden", "object": True,
        "superClasses": [{"access": "public", "name": "QWidget"}, {"access": "protected", "name": "VfWidget"}],
        "properties": [_prop("depth", "int", "depth", "setDepth", "depthChanged", False)],
        "signals": [_meth("depthChanged")],
        "slots": [_meth("setDepth", args=[("int", "v")])],
    }
    # a subclass that declares a nested enum with the SAME name as the one an inherited property uses unqualified
    badge = {
        "className": "VfBadge", "qualifiedClassName": "VfBadge", "object": True,
        "superClasses": [{"access": "public", "name": "VfWidget"}],
        "enums": [{"name": "Mode", "isClass": False, "isFlag": False, "values": ["Circle", "Square"]}],
        "properties": [_prop("shape", "Mode", "shape", "setShape", "shapeChanged", False)],
        "signals": [_meth("shapeChanged")],
        "slots": [_meth("setShape", args=[("Mode", "v")])],
    }
    return [vf, sub, other, plot, hidden, badge]


def write(path):
    os.makedirs(os.path.dirname(path), exist_ok=True)
    data = json.dumps([{"classes": classes(), "inputFile": "vfwidget.h", "outputRevision": 68}], indent=1)
    if os.path.exists(path) and open(path).read() == data:
        return
    tmp = path + ".tmp%d" % os.getpid()
    with open(tmp, "w") as f:
        f.write(data)
    os.replace(tmp, path)
