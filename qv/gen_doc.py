"""Generator of QML documents from an abstract object tree whose expected .ui shape is known.

The abstract case is built first and QML is printed from it, so oracles never re-parse QML.
"""
from fractions import Fraction

from . import catalog, strings

ROOT_CLASSES = ["QWidget", "QDialog", "QFrame", "QGroupBox", "QMainWindow", "VfWidget"]
CONTAINERS = ["QWidget", "QFrame", "QGroupBox", "QStackedWidget", "VfWidget", "QScrollArea", "QSplitter", "QToolBox"]
LEAVES = ["QLabel", "QPushButton", "QCheckBox", "QLineEdit", "QSpinBox", "QComboBox", "QSlider", "QProgressBar",
          "QRadioButton", "QToolButton", "QListWidget", "QTreeView", "QTableView", "QTextEdit", "QPlainTextEdit",
          "QDoubleSpinBox", "QDial", "QLCDNumber", "QDateEdit", "QDialogButtonBox", "QListView", "QCommandLinkButton",
          "VfWidget", "VfSub", "VfOther"]
LAYOUTS = ["QVBoxLayout", "QHBoxLayout", "QGridLayout", "QFormLayout"]
JS_RESERVED = {"default", "class", "function", "var", "let", "const", "new", "delete", "in", "do", "if", "else",
               "for", "while", "switch", "case", "break", "return", "this", "true", "false", "null", "void",
               "typeof", "with", "try", "catch", "throw", "enum", "export", "import", "super", "yield", "await",
               "static", "id", "property", "signal", "readonly", "on", "as", "of", "from", "get", "set", "async",
               "component", "required", "pragma", "alias", "int", "bool", "double", "string", "real", "list", "color"}

# properties the translator handles in a special manner (never picked as ordinary bindings)
PSEUDO = {"actions", "model", "horizontalHeader", "verticalHeader", "header", "flow", "columns", "rows",
          "contentsMargins", "separator", "default_"}
# widget properties that are read-only or awkward; skipped
SKIP_PROPS = {"geometry", "pos", "size", "locale", "x", "y", "width", "height"}


class Obj:
    def __init__(self, cls, kind):
        self.cls = cls            # QML / C++ class name
        self.kind = kind          # widget | layout | spacer | action | separator | menu
        self.id = None
        self.bindings = []        # list of Binding (scalar) and Group
        self.children = []
        self.parent = None
        self.span = None          # byte span of the object definition in the printed source
        self.head_span = None     # byte span of the type name

    def walk(self):
        yield self
        for c in self.children:
            yield from c.walk()

    def name_hint(self):
        return self.id or ("<anonymous %s>" % self.cls)


class Binding:
    """Scalar binding `name: expr` (name may be dotted: group member or attached)."""

    def __init__(self, path, src, vkind, expect=None, attached=False, ptype=None):
        self.path = tuple(path)
        self.src = src
        self.vkind = vkind        # const | dynamic | callback
        self.expect = expect      # decoded value expected in the .ui (uiparse.decode_value shape) or None
        self.attached = attached
        self.ptype = ptype
        self.span = None          # byte span of the whole binding text
        self.value_span = None
        self.surface = "property"  # property | attribute | pseudo | layoutattr | header
        self.owner = None
        self.strings = []         # [(denoted string, pool)] carried by this binding


class Group:
    """Gadget-valued property written member-wise (dotted or grouped notation)."""

    def __init__(self, name, tag, members, notation):
        self.name = name
        self.tag = tag            # expected value element: size, rect, font, sizepolicy, iconset
        self.members = members    # list of Binding with path (name, member)
        self.notation = notation  # dotted | grouped
        self.span = None
        self.owner = None


def num_eq(text, value):
    """Exact comparison of an emitted <number> text with the expected number."""
    try:
        return Fraction(text) == Fraction(value) if not isinstance(value, float) else Fraction(text) == Fraction(repr(value))
    except (ValueError, ZeroDivisionError):
        return False


class DocGen:
    def __init__(self, rng, cat=None, hostile_strings=True, adversarial_names=True, dynamic=0.0, callbacks=0.0,
                 max_depth=5, max_fanout=6, max_objects=40, layout_attached=True, allow_controls=False,
                 allow_cr=True, max_bindings=6, groups=True, pseudo=True, components=None):
        self.rng = rng
        self.cat = cat or catalog.load()
        self.hostile = hostile_strings
        self.adversarial = adversarial_names
        self.p_dynamic = dynamic
        self.p_callback = callbacks
        self.max_depth = max_depth
        self.max_fanout = max_fanout
        self.max_objects = max_objects
        self.layout_attached = layout_attached
        self.allow_controls = allow_controls
        self.allow_cr = allow_cr
        self.max_bindings = max_bindings
        self.groups = groups
        self.pseudo = pseudo
        self.components = components or {}   # custom component name -> base class (files on disk)
        self.used_ids = set()
        self.n_objects = 0
        self.sources = {}   # type -> list of (id, expr) usable in dynamic expressions

    # ------------------------------------------------------------------ tree
    def make(self, type_name="MyType"):
        rng = self.rng
        root = Obj(rng.choice(ROOT_CLASSES), "widget")
        self.n_objects = 1
        self.used_ids = set()
        self._grow_widget(root, 0, is_root=True)
        objs = list(root.walk())
        self._assign_ids(objs)
        self._collect_sources(objs)
        for o in objs:
            self._bind(o)
        doc = Doc(root, type_name)
        # one document in six also carries a warning (the Qt 5 style versioned import): accepted documents stay accepted,
        # and an error next to a warning is still an error
        doc.import_version = rng.choice(("", "", "", "", "", " 6.2"))
        doc.print(rng)
        return doc

    def _budget(self):
        return self.n_objects < self.max_objects

    def _new(self, parent, cls, kind):
        o = Obj(cls, kind)
        o.parent = parent
        parent.children.append(o)
        self.n_objects += 1
        return o

    def _grow_widget(self, w, depth, is_root=False):
        rng = self.rng
        if depth >= self.max_depth or not self._budget():
            return
        cls = w.cls
        if cls == "QMainWindow":
            if rng.random() < 0.7:
                mb = self._new(w, "QMenuBar", "widget")
                for _ in range(rng.randint(1, 3)):
                    if self._budget():
                        self._grow_menu(self._new(mb, "QMenu", "menu"), depth + 2)
            c = self._new(w, "QWidget", "widget")
            self._grow_widget(c, depth + 1)
            if rng.random() < 0.5 and self._budget():
                tb = self._new(w, "QToolBar", "widget")
                for _ in range(rng.randint(0, 3)):
                    if self._budget():
                        self._action_like(tb, allow_menu=True, depth=depth + 1)
            if rng.random() < 0.4 and self._budget():
                self._new(w, "QStatusBar", "widget")
            for _ in range(rng.randint(0, 3)):
                if self._budget():
                    self._action_like(w, allow_menu=True, depth=depth + 1)
            return
        if cls == "QTabWidget":
            for _ in range(rng.randint(1, 4)):
                if self._budget():
                    page = self._new(w, rng.choice(("QWidget", "QWidget", "QFrame", "VfWidget", "QTableView", "QTreeView", "QLabel")), "widget")
                    page.tab_page = True
                    self._grow_widget(page, depth + 1)
                if rng.random() < 0.35 and self._budget():
                    self._action_like(w, allow_menu=True, depth=depth)   # context-menu actions / sub menus next to the pages
            return
        if cls in ("QStackedWidget", "QToolBox", "QSplitter"):
            for _ in range(rng.randint(1, 3)):
                if self._budget():
                    c = self._new(w, rng.choice(("QWidget", "QFrame", "QLabel", "QTextEdit")), "widget")
                    self._grow_widget(c, depth + 1)
            return
        if cls not in CONTAINERS and cls not in ROOT_CLASSES:
            # leaf widgets may still own actions / menus (context menus)
            if rng.random() < 0.15:
                for _ in range(rng.randint(1, 3)):
                    if self._budget():
                        self._action_like(w, allow_menu=True, depth=depth)
            return
        r = rng.random()
        if r < 0.65:
            lay = self._new(w, rng.choice(LAYOUTS), "layout")
            self._grow_layout(lay, depth + 1)
        elif r < 0.85:
            for _ in range(rng.randint(1, min(4, self.max_fanout))):
                if self._budget():
                    self._child_widget(w, depth)
        # actions / menus next to the layout, in any interleaving with widgets
        if rng.random() < 0.3:
            for _ in range(rng.randint(1, 4)):
                if self._budget():
                    self._action_like(w, allow_menu=True, depth=depth)
            if rng.random() < 0.5:
                rng.shuffle(w.children)

    def _child_widget(self, parent, depth):
        rng = self.rng
        r = rng.random()
        if r < 0.2 and depth + 1 < self.max_depth:
            cls = rng.choice(CONTAINERS + ["QTabWidget"])
        elif [k for k, b in self.components.items() if b != "QAction"] and r < 0.45:
            cls = rng.choice(sorted(k for k, b in self.components.items() if b != "QAction"))
        else:
            cls = rng.choice(LEAVES)
        c = self._new(parent, cls, "widget")
        self._grow_widget(c, depth + 1)
        return c

    def _grow_layout(self, lay, depth):
        rng = self.rng
        n = rng.randint(0, self.max_fanout) if rng.random() < 0.9 else rng.randint(self.max_fanout, self.max_fanout + 6)
        for _ in range(n):
            if not self._budget():
                break
            r = rng.random()
            if r < 0.15 and depth + 1 < self.max_depth:
                sub = self._new(lay, rng.choice(LAYOUTS), "layout")
                self._grow_layout(sub, depth + 1)
            elif r < 0.27:
                self._new(lay, "QSpacerItem", "spacer")
            else:
                self._child_widget(lay, depth)

    def _grow_menu(self, menu, depth):
        rng = self.rng
        for _ in range(rng.randint(0, 5)):
            if not self._budget():
                break
            self._action_like(menu, allow_menu=depth < self.max_depth, depth=depth)

    def _action_like(self, parent, allow_menu=True, depth=0):
        rng = self.rng
        r = rng.random()
        if r < 0.2:
            return self._new(parent, "QAction", "separator")
        if r < 0.35 and allow_menu:
            m = self._new(parent, "QMenu", "menu")
            self._grow_menu(m, depth + 1)
            return m
        acts = sorted(k for k, b in self.components.items() if b == "QAction")
        if acts and r < 0.6:
            return self._new(parent, rng.choice(acts), "action")     # a component rooted in QAction
        return self._new(parent, "QAction", "action")

    # ------------------------------------------------------------------ ids
    def _assign_ids(self, objs):
        rng = self.rng
        gen_like = []
        for o in objs:
            p = catalog.qtify(o.cls)
            gen_like += [p, p + "1", p + "2"]
        for o in objs:
            if o.kind == "separator":
                continue   # a static separator must not have an id... it may, but then it is referenced
            if rng.random() < 0.55:
                o.id = self._fresh_id(o, gen_like)
        root = objs[0]
        if root.id is None and rng.random() < 0.7:
            root.id = self._fresh_id(root, gen_like)

    def _fresh_id(self, o, gen_like):
        rng = self.rng
        for _ in range(50):
            r = rng.random()
            if self.adversarial and r < 0.35:
                cand = rng.choice(gen_like)
            elif r < 0.6:
                cand = catalog.qtify(o.cls) + rng.choice(("", "_", "A", "Box", "X1")) + str(rng.randrange(100))
            else:
                cand = rng.choice(("ok", "cancel", "name", "edit", "main", "page", "item", "w", "a", "b", "obj", "act",
                                   "file", "view", "box", "root", "ui", "self_", "_priv", "x1", "x2", "a1", "xA", "é",
                                   "日本")) + rng.choice(("", "", "1", "2", "Button", "_2", "Edit"))
            if cand in self.used_ids or cand in JS_RESERVED or not cand or cand[0].isupper() or cand[0].isdigit():
                continue
            # ids equal to property/method names of the referencing objects would change name lookup
            self.used_ids.add(cand)
            return cand
        return None

    # ------------------------------------------------------------------ sources for dynamic expressions
    def _collect_sources(self, objs):
        src = {"bool": [], "int": [], "QString": [], "double": []}
        for o in objs:
            if not o.id or o.cls in self.components:
                continue
            if self.cat.is_a(o.cls, "QAbstractButton") and o.cls != "QDialogButtonBox":
                src["bool"].append("%s.checked" % o.id)
            if o.cls in ("QSpinBox", "QSlider", "QDial", "QProgressBar"):
                src["int"].append("%s.value" % o.id)
            if o.cls == "QComboBox":
                src["int"].append("%s.currentIndex" % o.id)
                src["QString"].append("%s.currentText" % o.id)
            if o.cls == "QLineEdit":
                src["QString"].append("%s.text" % o.id)
            if o.cls == "QDoubleSpinBox":
                src["double"].append("%s.value" % o.id)
            if self.cat.is_a(o.cls, "VfWidget"):
                src["bool"].append("%s.bval" % o.id)
                src["int"].append("%s.ival" % o.id)
                src["QString"].append("%s.sval" % o.id)
                src["double"].append("%s.dval" % o.id)
            if self.cat.is_a(o.cls, "QAction") and o.kind == "action":
                src["bool"].append("%s.checked" % o.id)
        self.sources = src

    # ------------------------------------------------------------------ bindings
    def _bind(self, o):
        rng = self.rng
        if o.kind == "separator":
            o.bindings.append(self._mk(o, ("separator",), "true", "const", None, surface="pseudo"))
            return
        props = self.cat.props(self.components.get(o.cls, o.cls))
        names = [n for n, (p, c) in props.items()
                 if p.get("write") and n not in PSEUDO and n not in SKIP_PROPS]
        rng.shuffle(names)
        n_bind = rng.randint(0, self.max_bindings)
        if rng.random() < 0.08:
            n_bind = rng.randint(self.max_bindings, self.max_bindings * 3)
        used = set()
        for n in names:
            if len(o.bindings) >= n_bind:
                break
            p = props[n][0]
            b = self._value_for(o, n, p)
            if b is None or n in used:
                continue
            used.add(n)
            o.bindings.append(b)
        if o.kind == "spacer":
            o.bindings = []
            if rng.random() < 0.7:
                v = rng.choice(("Horizontal", "Vertical"))
                o.bindings.append(self._mk(o, ("orientation",), "Qt." + v, "const", ("enum", "Qt::" + v)))
            if rng.random() < 0.6:
                o.bindings.append(self._group(o, "sizeHint", "size", [("width", rng.randint(0, 400)), ("height", rng.randint(0, 400))]))
        if self.pseudo:
            self._pseudo_bindings(o)
        if getattr(o, "tab_page", False):
            if rng.random() < 0.85:
                s, pool = strings.pick_string(rng, self.hostile, self.allow_controls, self.allow_cr)
                tr = rng.random() < 0.5
                src = strings.js_literal(rng, s)
                b = self._mk(o, ("QTabWidget", "title"), "qsTr(%s)" % src if tr else src, "const",
                             ("string", s, not tr), attached=True, surface="attribute")
                b.strings = [(s, pool)]
                o.bindings.append(b)
            if rng.random() < 0.3:
                s, pool = strings.pick_string(rng, self.hostile, self.allow_controls, self.allow_cr)
                b = self._mk(o, ("QTabWidget", "toolTip"), strings.js_literal(rng, s), "const", ("string", s, True),
                             attached=True, surface="attribute")
                b.strings = [(s, pool)]
                o.bindings.append(b)
        if self.p_callback:
            for _ in range(4):
                if rng.random() < self.p_callback:
                    self._callback(o)
        rng.shuffle(o.bindings)

    def _mk(self, o, path, src, vkind, expect, attached=False, surface="property", ptype=None):
        b = Binding(path, src, vkind, expect, attached, ptype)
        b.surface = surface
        b.owner = o
        return b

    def _group(self, o, name, tag, members, dotted=None):
        rng = self.rng
        ms = []
        for (m, v) in members:
            if isinstance(v, tuple):
                src, exp = v
            else:
                src, exp = str(v), ("number", str(v))
            ms.append(self._mk(o, (name, m), src, "const", exp))
        if self.p_dynamic and tag == "font":   # only QFont members have read/write functions in the type information
            for m in ms:
                if rng.random() < self.p_dynamic * 0.6:
                    if m.expect and m.expect[0] == "bool" and self.sources["bool"]:
                        m.src, m.vkind, m.expect, m.surface = rng.choice(self.sources["bool"]), "dynamic", None, "header"
                    elif m.expect and m.expect[0] == "number" and self.sources["int"] and tag != "sizepolicy":
                        m.src, m.vkind, m.expect, m.surface = rng.choice(self.sources["int"]), "dynamic", None, "header"
                    elif m.expect and m.expect[0] == "string" and self.sources["QString"]:
                        m.src, m.vkind, m.expect, m.surface = rng.choice(self.sources["QString"]), "dynamic", None, "header"
                        m.strings = []
        g = Group(name, tag, ms, "dotted" if (dotted if dotted is not None else rng.random() < 0.5) else "grouped")
        g.owner = o
        return g

    def _value_for(self, o, name, p):
        """Binding for property `name` of declared type p['type'], or None if the type is not covered."""
        rng = self.rng
        t = p["type"]
        dyn = self.p_dynamic and rng.random() < self.p_dynamic and p.get("read")
        if t == "bool":
            if dyn and self.sources["bool"]:
                s = rng.choice(self.sources["bool"])
                src = rng.choice((s, "!" + s, "%s && true" % s))
                return self._mk(o, (name,), src, "dynamic", None, surface="header", ptype=t)
            v = rng.random() < 0.5
            return self._mk(o, (name,), "true" if v else "false", "const", ("bool", "true" if v else "false"), ptype=t)
        if t == "int":
            if dyn and self.sources["int"]:
                s = rng.choice(self.sources["int"])
                src = rng.choice((s, "%s + 1" % s, "Math.max(%s, 0)" % s, "%s * 2" % s))
                return self._mk(o, (name,), src, "dynamic", None, surface="header", ptype=t)
            v = rng.choice((0, 1, -1, 2, 7, 10, 100, 255, 1000, 65535, 2147483647, -2147483648, rng.randint(-500, 500)))
            src = rng.choice((str(v), str(v), "(%d)" % v, "%d + 0" % v if v >= 0 else str(v)))
            return self._mk(o, (name,), src, "const", ("number", str(v)), ptype=t)
        if t in ("double", "qreal"):
            if dyn and self.sources["double"]:
                s = rng.choice(self.sources["double"])
                return self._mk(o, (name,), rng.choice((s, "%s * 2.0" % s)), "dynamic", None, surface="header", ptype=t)
            v = rng.choice((0.0, 0.5, 1.0, 1.5, 2.25, 100.0, 0.125, 1e3, 12.75))
            return self._mk(o, (name,), repr(v), "const", ("number", repr(v)), ptype=t)
        if t == "QString":
            if dyn and self.sources["QString"]:
                s = rng.choice(self.sources["QString"])
                lit, pool = strings.pick_string(rng, self.hostile, False, self.allow_cr)
                src = rng.choice((s, "%s + %s" % (s, strings.js_literal(rng, lit)),
                                  "qsTr(%s).arg(%s)" % (strings.js_literal(rng, "v=%1"), s)))
                b = self._mk(o, (name,), src, "dynamic", None, surface="header", ptype=t)
                return b
            s, pool = strings.pick_string(rng, self.hostile, self.allow_controls, self.allow_cr)
            tr = rng.random() < 0.5
            lit = strings.js_literal(rng, s)
            if rng.random() < 0.1 and len(s) > 1:   # concatenation folded at translation time
                k = rng.randrange(1, len(s))
                lit = "%s + %s" % (strings.js_literal(rng, s[:k]), strings.js_literal(rng, s[k:]))
            b = self._mk(o, (name,), "qsTr(%s)" % lit if tr and "+" not in lit else lit, "const",
                         ("string", s, not (tr and "+" not in lit)), ptype=t)
            b.strings = [(s, pool)]
            return b
        if t == "QStringList":
            k = rng.randint(0, 4)
            items = [strings.pick_string(rng, self.hostile, self.allow_controls, self.allow_cr) for _ in range(k)]
            tr = rng.random() < 0.4 and k > 0
            lits = [("qsTr(%s)" % strings.js_literal(rng, s) if tr else strings.js_literal(rng, s)) for s, _ in items]
            b = self._mk(o, (name,), "[%s]" % ", ".join(lits), "const",
                         ("stringlist", [s for s, _ in items], not tr), ptype=t)
            b.strings = items
            return b
        if t == "QSize" and self.groups:
            return self._group(o, name, "size", [("width", rng.randint(0, 999)), ("height", rng.randint(0, 999))])
        if t == "QRect" and self.groups:
            ms = [("x", rng.randint(0, 99)), ("y", rng.randint(0, 99)), ("width", rng.randint(1, 999)), ("height", rng.randint(1, 999))]
            return self._group(o, name, "rect", ms)
        if t == "QFont" and self.groups:
            ms = []
            if rng.random() < 0.6:
                s, pool = strings.pick_string(rng, self.hostile, self.allow_controls, self.allow_cr)
                ms.append(("family", (strings.js_literal(rng, s), ("string", s, True))))
            if rng.random() < 0.5:
                ms.append(("pointSize", rng.randint(6, 48)))
            for m in ("bold", "italic", "underline", "strikeout", "kerning"):
                if rng.random() < 0.25:
                    v = rng.random() < 0.5
                    ms.append((m, ("true" if v else "false", ("bool", "true" if v else "false"))))
            if rng.random() < 0.2:
                ms.append(("weight", rng.choice((25, 50, 75))))
            if rng.random() < 0.2:
                v = rng.choice(("PreferDefault", "PreferAntialias", "NoAntialias"))
                ms.append(("styleStrategy", ("QFont." + v, ("enum", v))))
            if not ms:
                ms.append(("bold", ("true", ("bool", "true"))))
            g = self._group(o, name, "font", ms)
            for m in g.members:
                if m.expect and m.expect[0] == "string":
                    m.strings = [(m.expect[1], "font")]
            return g
        if t == "QSizePolicy" and self.groups:
            pol = ["Fixed", "Minimum", "Maximum", "Preferred", "MinimumExpanding", "Expanding", "Ignored"]
            h, v = rng.choice(pol), rng.choice(pol)
            ms = [("horizontalPolicy", ("QSizePolicy." + h, ("attr", "hsizetype", h))),
                  ("verticalPolicy", ("QSizePolicy." + v, ("attr", "vsizetype", v)))]
            if rng.random() < 0.4:
                ms.append(("horizontalStretch", (str(rng.randint(0, 9)),) * 1 + (None,)))
            if rng.random() < 0.4:
                ms.append(("verticalStretch", (str(rng.randint(0, 9)), None)))
            fixed = []
            for (m, v2) in ms:
                if v2[1] is None:
                    fixed.append((m, (v2[0], ("child", {"horizontalStretch": "horstretch", "verticalStretch": "verstretch"}[m], v2[0]))))
                else:
                    fixed.append((m, v2))
            return self._group(o, name, "sizepolicy", fixed)
        if t == "QIcon" and self.groups:
            ms = []
            if rng.random() < 0.5:
                s, pool = strings.pick_string(rng, self.hostile, False, self.allow_cr)
                m = ("name", (strings.js_literal(rng, s), ("attr", "theme", s)))
                ms.append(m)
            for st in ("normalOff", "normalOn", "disabledOff", "activeOn", "selectedOff"):
                if rng.random() < 0.3:
                    s, pool = strings.pick_string(rng, self.hostile, False, self.allow_cr)
                    ms.append((st, (strings.js_literal(rng, s), ("child", st.lower(), s))))
            if not ms:
                ms.append(("normalOff", ('"a.png"', ("child", "normaloff", "a.png"))))
            g = self._group(o, name, "iconset", ms)
            for m in g.members:
                if m.expect:
                    m.strings = [(m.expect[2], "icon")]
            return g
        if t == "QPalette" and self.groups:
            roles = ["window", "windowText", "base", "text", "button", "buttonText", "highlight", "link", "mid", "dark"]
            cols = ["red", "#fff", "#102030", "black", "#80ffffff", "gray", "transparent", "#abc"]
            ms = []
            for r in rng.sample(roles, rng.randint(1, 4)):
                ms.append(((r,), '"%s"' % rng.choice(cols)))
            for grp in rng.sample(["active", "inactive", "disabled"], rng.randint(0, 2)):
                for r in rng.sample(roles, rng.randint(1, 3)):
                    ms.append(((grp, r), '"%s"' % rng.choice(cols)))
            members = []
            for (sub, src) in ms:
                m = self._mk(o, (name,) + sub, src, "const", None)
                m.surface = "unjudged"
                members.append(m)
            g = Group(name, "palette", members, "dotted")
            g.owner = o
            return g
        if t == "QCursor":
            v = rng.choice(("ArrowCursor", "WaitCursor", "IBeamCursor", "CrossCursor", "PointingHandCursor", "BusyCursor"))
            return self._mk(o, (name,), "Qt." + v, "const", ("cursorShape", v), ptype=t)
        if t == "QPixmap":
            s, pool = strings.pick_string(rng, self.hostile, False, self.allow_cr)
            b = self._mk(o, (name,), strings.js_literal(rng, s), "const", ("pixmap", s), ptype=t)
            b.strings = [(s, pool)]
            return b
        if t == "QKeySequence":
            r = rng.random()
            if r < 0.4:
                v = rng.choice(("Save", "Open", "Quit", "Copy", "Paste", "HelpContents"))
                return self._mk(o, (name,), "QKeySequence." + v, "const", ("enum", "QKeySequence::" + v), ptype=t)
            s = rng.choice(("Ctrl+S", "Ctrl+Shift+<", "Alt+&", "F1", "Ctrl+\"", "Meta+é"))
            tr = r < 0.7
            lit = strings.js_literal(rng, s)
            b = self._mk(o, (name,), "qsTr(%s)" % lit if tr else lit, "const", ("string", s, not tr), ptype=t)
            b.strings = [(s, "key")]
            return b
        if t in ("QColor", "QBrush"):
            c = rng.choice(("#fff", "#8abc", "#102030", "#80102030", "red", "DarkSlateGray", "transparent"))
            from .checks.c19 import ref_color
            r, g, b_, a = ref_color(c)
            col = ("color", str(a), str(r), str(g), str(b_))
            exp = col if t == "QColor" else ("brush", {"brushstyle": "SolidPattern"}, [("color", {"alpha": str(a)}, col)])
            return self._mk(o, (name,), '"%s"' % c, "const", exp, ptype=t)
        if t.endswith("*"):
            return None
        # enums and flags
        res = self.cat.resolve_enum(self.components.get(o.cls, o.cls), t)
        if res is not None:
            owner, e = res
            vals = self.cat.enum_values(owner, e)
            if not vals or e.get("isClass"):
                return None
            if e.get("isFlag"):
                k = rng.choice((1, 1, 2, 3))
                vs = [rng.choice(vals) for _ in range(k)]
                src = " | ".join("%s.%s" % (owner, v) for v in vs)
                return self._mk(o, (name,), src, "const", ("set", "|".join("%s::%s" % (owner, v) for v in vs)), ptype=t)
            v = rng.choice(vals)
            return self._mk(o, (name,), "%s.%s" % (owner, v), "const", ("enum", "%s::%s" % (owner, v)), ptype=t)
        return None

    def _pseudo_bindings(self, o):
        rng = self.rng
        cat = self.cat
        if o.kind == "layout":
            if rng.random() < 0.3:
                ms = [(m, rng.randint(0, 30)) for m in ("left", "top", "right", "bottom") if rng.random() < 0.8]
                if ms:
                    g = self._group(o, "contentsMargins", "margins", ms)
                    for m in g.members:
                        m.surface = "pseudo"
                        m.expect = ("property", m.path[1] + "Margin", m.expect)
                    g.pseudo = True
                    o.bindings.append(g)
        if o.cls in ("QComboBox", "QListWidget") and rng.random() < 0.5:
            k = rng.randint(0, 5)
            items = [strings.pick_string(rng, self.hostile, self.allow_controls, self.allow_cr) for _ in range(k)]
            trs = [rng.random() < 0.3 for _ in items]
            lits = [("qsTr(%s)" % strings.js_literal(rng, s) if tr else strings.js_literal(rng, s))
                    for (s, _), tr in zip(items, trs)]
            b = self._mk(o, ("model",), "[%s]" % ", ".join(lits), "const",
                         ("items", [(s, not tr) for (s, _), tr in zip(items, trs)]), surface="pseudo")
            b.strings = items
            o.bindings.append(b)
        if o.cls == "QPushButton" and rng.random() < 0.2:
            v = rng.random() < 0.5
            b = self._mk(o, ("default_",), "true" if v else "false", "const",
                         ("property", "default", ("bool", "true" if v else "false")), surface="pseudo")
            o.bindings.append(b)
        if o.cls == "QTreeView" and rng.random() < 0.4:
            v = rng.random() < 0.5
            g = self._group(o, "header", "attrs", [("visible", ("true" if v else "false", ("bool", "true" if v else "false")))])
            for m in g.members:
                m.surface = "pseudo"
                m.expect = ("attribute", "headerVisible", m.expect)
            g.pseudo = True
            o.bindings.append(g)
        if o.cls == "QTableView" and rng.random() < 0.4:
            which = rng.choice(("horizontalHeader", "verticalHeader"))
            ms = []
            if rng.random() < 0.7:
                v = rng.random() < 0.5
                ms.append(("visible", ("true" if v else "false", ("bool", "true" if v else "false"))))
            if rng.random() < 0.5:
                n = rng.randint(10, 200)
                ms.append(("defaultSectionSize", (str(n), ("number", str(n)))))
            if ms:
                g = self._group(o, which, "attrs", ms)
                for m in g.members:
                    m.surface = "pseudo"
                    m.expect = ("attribute", which + catalog.cap(m.path[1]), m.expect)
                g.pseudo = True
                o.bindings.append(g)
        # explicit actions list
        if o.kind in ("widget", "menu") and rng.random() < 0.25:
            kids = [c for c in o.children if c.kind in ("action", "menu", "separator")]
            pool = [c for c in kids if c.id]
            if pool or rng.random() < 0.3:
                k = rng.randint(0, len(pool))
                pick = [rng.choice(pool) for _ in range(k)] if pool else []
                srcs, names = [], []
                for c in pick:
                    if c.kind == "menu":
                        srcs.append("%s.menuAction()" % c.id)
                    else:
                        srcs.append(c.id)
                    names.append("separator" if c.kind == "separator" else c.id)
                b = self._mk(o, ("actions",), "[%s]" % ", ".join(srcs), "const", ("actions", names), surface="pseudo")
                o.bindings.append(b)
                o.explicit_actions = names
        if o.cls == "QLabel" and rng.random() < 0.3:
            targets = [x for x in self._all_objs(o) if x.id and x.kind in ("widget", "menu") and x is not o]
            if targets:
                tg = rng.choice(targets)
                o.bindings.append(self._mk(o, ("buddy",), tg.id, "const", ("cstring", tg.id), ptype="QWidget*"))

    def _all_objs(self, o):
        r = o
        while r.parent is not None:
            r = r.parent
        return list(r.walk())

    def _callback(self, o):
        rng = self.rng
        sigs = self.cat.methods(self.components.get(o.cls, o.cls), kinds=("signals",))
        cands = []
        for n, ms in sigs.items():
            if n in ("destroyed", "objectNameChanged"):
                continue
            sets = [tuple(a["type"] for a in m.get("arguments", [])) for (_, m, _) in ms]
            longest = max(sets, key=len)
            simple = all(t in ("bool", "int", "uint", "double", "QString") or t in ("QWidget*", "QAction*", "QAbstractButton*", "VfWidget*")
                         for t in longest)
            if simple and all(longest[:len(s)] == s for s in sets):
                cands.append((n, longest))
        if not cands:
            return
        cands = [c for c in cands if not any(getattr(b, "signal", None) == c[0] for b in o.bindings)]
        if not cands:
            return
        n, args = rng.choice(sorted(cands))
        targets = [x for x in self._all_objs(o) if x.id and x.kind in ("widget", "menu")]
        if not targets:
            return
        tg = rng.choice(targets)
        body = rng.choice(("%s.setEnabled(false)" % tg.id, "%s.enabled = !%s.enabled" % (tg.id, tg.id),
                           "{ %s.hide(); %s.show() }" % (tg.id, tg.id), "console.log(\"%s\")" % n,
                           "console.warn(Math.min(1, 2))",
                           "%s.toolTip = qsTr(\"done\")" % tg.id))
        b = self._mk(o, ("on" + catalog.cap(n),), body, "callback", None, surface="header")
        b.signal = n
        o.bindings.append(b)


class Doc:
    def __init__(self, root, type_name):
        self.root = root
        self.type_name = type_name
        self.source = ""

    def objects(self):
        return list(self.root.walk())

    def scalar_bindings(self):
        out = []
        for o in self.objects():
            for b in o.bindings:
                if isinstance(b, Group):
                    out.extend(b.members)
                else:
                    out.append(b)
        return out

    def print(self, rng=None, compact=None):
        """Print QML; with rng=None the layout is canonical (no cosmetic variation)."""
        buf = []
        pos = [0]

        class _No:
            def random(self):
                return 1.0

            def randrange(self, n):
                return 0
        if rng is None:
            rng = _No()

        def emit(s):
            buf.append(s)
            pos[0] += len(s.encode("utf-8"))

        def nl(ind):
            emit("\n" + "    " * ind)

        emit("import qmluic.QtWidgets%s\n" % getattr(self, "import_version", ""))
        if rng.random() < 0.2:
            emit("// generated case\n")

        def pr_binding(b, ind):
            start = pos[0]
            name = ".".join(b.path)
            emit(name + ": ")
            vs = pos[0]
            emit(b.src)
            b.value_span = (vs, pos[0])
            b.span = (start, pos[0])

        def pr_obj(o, ind):
            start = pos[0]
            emit(o.cls)
            o.head_span = (start, pos[0])
            emit(" {")
            items = []
            if o.id:
                items.append(("id", None))
            for b in o.bindings:
                items.append(("b", b))
            # id first (usual style) or anywhere among the bindings
            if o.id and rng.random() < 0.3 and len(items) > 1:
                it = items.pop(0)
                items.insert(rng.randrange(len(items) + 1), it)
            for kind, b in items:
                nl(ind + 1)
                if kind == "id":
                    emit("id: " + o.id)
                elif isinstance(b, Group):
                    gs = pos[0]
                    if b.notation == "grouped":
                        emit(b.name + " {")
                        for i, m in enumerate(b.members):
                            emit(" " if i == 0 else "; ")
                            st = pos[0]
                            emit(m.path[1] + ": ")
                            vs = pos[0]
                            emit(m.src)
                            m.value_span = (vs, pos[0])
                            m.span = (st, pos[0])
                        emit(" }")
                    else:
                        for i, m in enumerate(b.members):
                            if i:
                                nl(ind + 1)
                            pr_binding(m, ind + 1)
                    b.span = (gs, pos[0])
                else:
                    pr_binding(b, ind + 1)
                if rng.random() < 0.1 and not (b is not None and isinstance(b, Group) and b.notation == "grouped") \
                        and not (b is not None and not isinstance(b, Group) and b.src.rstrip().endswith("}")):
                    emit(";")
            for c in o.children:
                nl(ind + 1)
                if rng.random() < 0.05:
                    emit("// child")
                    nl(ind + 1)
                if getattr(c, "prefix", None):
                    # opt-in decoration in front of a child object (annotation, comment); set by the check that wants it
                    emit(c.prefix)
                    if c.prefix.endswith("\n"):
                        emit("    " * (ind + 1))
                pr_obj(c, ind + 1)
            nl(ind)
            emit("}")
            o.span = (start, pos[0])

        pr_obj(self.root, 0)
        emit("\n")
        self.source = "".join(buf)
        assert pos[0] == len(self.source.encode("utf-8"))
        return self.source


# ---------------------------------------------------------------------------------------------
# single semantic faults planted into an accepted document

FAULT_KINDS = ["unknown-property", "ill-typed", "unsupported-syntax", "dynamic-attached", "read-only",
               "unknown-signal", "duplicate-binding", "duplicate-grouped", "duplicate-attached",
               "unknown-type", "invalid-type", "unknown-attached-type", "ill-typed-pseudo", "unused-attached"]


class Fault:
    def __init__(self, kind, obj, binding=None):
        self.kind = kind
        self.obj = obj          # object that contains the fault (for type faults: the object itself)
        self.binding = binding  # planted Binding (None for type faults)


def plant_fault(rng, doc, kind):
    """Mutates `doc` (use a deep copy) by planting one fault; re-prints canonically. Returns Fault or None."""
    objs = [o for o in doc.objects() if o.kind != "separator"]
    if kind in ("unknown-property", "unknown-signal") and rng.random() < 0.25:
        # ... or on a separator action (`QAction { separator: true }`): it has no element of its own, only its parent's
        # <addaction name="separator"/>
        seps = [o for o in doc.objects() if o.kind == "separator"]
        if seps:
            objs = seps
    in_layout = [o for o in objs if o.parent is not None and o.parent.kind == "layout"]
    nonroot = [o for o in objs if o.parent is not None]
    b = None
    if kind == "unknown-property":
        o = rng.choice(objs)
        # (typos are not always ASCII; names are cut and compared bytewise in places)
        # (... and a name may be capitalised like a type name, alone or in every dotted component, without being an attached binding)
        b = Binding(rng.choice((("noSuchProperty",), ("txet",), ("colour",), ("foo_bar",), ("w\u00efndowTitle",), ("t\u00ebxt",), ("\u6807\u9898",),
                                ("o\u00f1Clicked",), ("on\u00c9dited",), ("\u00e9",), ("x\u0301y",), ("on",), ("o",),
                                ("Text",), ("ToolTip",), ("Foo", "Bar"), ("NoSuchProperty",), ("\u00c9tat",))),
                    rng.choice(("1", '"x"', "true")), "fault")
    elif kind == "ill-typed":
        cands = [(o, n) for o in objs for n in ("enabled", "toolTip", "windowTitle", "minimumWidth")
                 if o.kind in ("widget", "menu") and not _has_binding(o, n)]
        if not cands:
            return None
        o, n = rng.choice(cands)
        src = {"enabled": rng.choice(('"yes"', "1", "Qt.AlignLeft")), "toolTip": rng.choice(("1", "true", "1.5")),
               "windowTitle": rng.choice(("42", "false")), "minimumWidth": rng.choice(('"10"', "true", "1.5"))}[n]
        b = Binding((n,), src, "fault")
    elif kind == "ill-typed-pseudo":
        # pseudo properties are evaluated by special code, not by the generic property pass
        cands = []
        for o in objs:
            if o.cls == "QGridLayout":
                cands += [(o, n, s) for n in ("rows", "columns") if not _has_binding(o, n) for s in ('"3"', "true", "1.5")]
            if o.cls == "QPushButton" and not _has_binding(o, "default_"):
                cands += [(o, "default_", '"yes"'), (o, "default_", "1")]
            if o.cls in ("QComboBox", "QListWidget") and not _has_binding(o, "model"):
                cands += [(o, "model", "1"), (o, "model", '"a"'), (o, "model", "[1, 2]")]
            if o.kind in ("widget", "menu") and not _has_binding(o, "actions") and getattr(o, "explicit_actions", None) is None:
                cands += [(o, "actions", "1"), (o, "actions", '"x"')]
        if not cands:
            return None
        o, n, src = rng.choice(cands)
        b = Binding((n,), src, "fault")
    elif kind == "unsupported-syntax":
        cands = [o for o in objs if o.kind in ("widget", "menu") and not _has_binding(o, "toolTip")]
        if not cands:
            return None
        o = rng.choice(cands)
        b = Binding(("toolTip",), rng.choice(('"a" ** 2', "typeof 1", "new Foo()", "(function() { return 1 })",
                                               "1 in 2", "void 0", "`tmpl`", '"a" ?? "b"', "1 >>> 2")), "fault")
    elif kind == "dynamic-attached":
        srcs = [o2.id for o2 in objs if o2.id and o2.cls in ("QSpinBox", "QSlider")]
        cands = [o for o in in_layout if not any(getattr(x, "attached", False) and x.path[0] == "QLayout" for x in o.bindings)]
        if not srcs or not cands:
            return None
        o = rng.choice(cands)
        b = Binding(("QLayout", rng.choice(("row", "column", "rowStretch"))), "%s.value" % rng.choice(srcs), "fault", attached=True)
    elif kind == "read-only":
        cands = [o for o in objs if o.kind in ("widget", "menu")]
        if not cands:
            return None
        o = rng.choice(cands)
        b = Binding((rng.choice(("width", "height", "isActiveWindow", "childrenRect", "x")),), "10", "fault")
    elif kind == "unknown-signal":
        o = rng.choice(objs)
        b = Binding((rng.choice(("onNoSuchSignal", "onFooBar", "onClickedd")),), "{}", "fault")
    elif kind == "duplicate-binding":
        cands = [(o, x) for o in objs for x in o.bindings if isinstance(x, Binding) and len(x.path) == 1 and not x.attached]
        if not cands:
            return None
        o, x = rng.choice(cands)
        b = Binding(x.path, x.src, "fault")
    elif kind == "duplicate-grouped":
        cands = [(o, g) for o in objs for g in o.bindings if isinstance(g, Group) and g.members]
        if not cands:
            return None
        o, g = rng.choice(cands)
        m = rng.choice(g.members)
        b = Binding(m.path, m.src, "fault")
    elif kind == "duplicate-attached":
        cands = [(o, x) for o in objs for x in o.bindings if isinstance(x, Binding) and x.attached]
        if not cands:
            return None
        o, x = rng.choice(cands)
        b = Binding(x.path, x.src, "fault", attached=True)
    elif kind == "unknown-attached-type":
        o = rng.choice(objs)
        b = Binding((rng.choice(("NoSuchType", "QFoo", "Layout")), "row"), "1", "fault", attached=True)
    elif kind == "unused-attached":
        # an attached property that exists, bound where nobody consumes it (a column-wise setting on a vertical box item, a tab
        # title on a widget that is no tab page, a cell on a widget outside any layout): an error in every mode, whatever the value
        cands = []
        for o in objs:
            have = {x.path for x in o.bindings if isinstance(x, Binding) and x.attached}
            pk, pc = (o.parent.kind, o.parent.cls) if o.parent is not None else (None, None)
            opts = []
            if pc == "QVBoxLayout":
                opts = [("QLayout", "columnStretch"), ("QLayout", "columnMinimumWidth"), ("QLayout", "column")]
            elif pc == "QHBoxLayout":
                opts = [("QLayout", "rowStretch"), ("QLayout", "rowMinimumHeight"), ("QLayout", "row")]
            elif pk != "layout" and o.kind == "widget":
                opts = [("QLayout", "row"), ("QLayout", "columnStretch")]
            if pc != "QTabWidget" and o.kind == "widget":
                opts = opts + [("QTabWidget", "title"), ("QTabWidget", "toolTip")]
            cands += [(o, pth) for pth in opts if pth not in have and not any(h[0] == pth[0] for h in have)]
        if not cands:
            return None
        o, pth = rng.choice(cands)
        src = (rng.choice(('"t"', "2", "true")) if pth[0] == "QTabWidget" else rng.choice(("1", '"2"', "1.5")))
        b = Binding(pth, src, "fault", attached=True)
    elif kind in ("unknown-type", "invalid-type"):
        if not nonroot:
            return None
        o = rng.choice(nonroot)
        o.orig_cls = o.cls
        # a type that is not a class (QVariant is a value type without class representation)
        o.cls = rng.choice(("NoSuchWidget", "QLabell", "Foo")) if kind == "unknown-type" else "QVariant"
        doc.print(None)
        return Fault(kind, o)
    else:
        raise ValueError(kind)
    b.owner = o
    b.surface = "fault"
    o.bindings.insert(rng.randrange(len(o.bindings) + 1), b)
    doc.print(None)
    return Fault(kind, o, b)


def _has_binding(o, name):
    for x in o.bindings:
        if isinstance(x, Group):
            if x.name == name:
                return True
        elif x.path[0] == name and not x.attached:
            return True
    return False
