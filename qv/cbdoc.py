"""Documents whose signal handlers are generated void programs (gen_expr.VoidGen), and their driver."""
import re
from . import cxxrun, exprdoc, gen_expr as ge

# sender id, class, signal, argument types (of the overload carrying the most arguments), C++ signal id in the model
SIGNALS = [
    ("s0", "VfWidget", "fired", ()),
    ("s0", "VfWidget", "poked", (ge.INT, ge.STR)),          # poked(int a, QString b = QString())
    ("s0", "VfWidget", "nudged", (ge.BOOL,)),               # nudged(bool on = false)
    ("s0", "VfWidget", "triple", (ge.INT, ge.STR, ge.BOOL)),
    ("s0", "VfWidget", "told", (ge.STR,)),
    ("s0", "VfWidget", "pointed", (ge.PTR,)),
    ("s0", "VfWidget", "ranked", (ge.UINT, ge.DOUBLE)),
    ("s0", "VfWidget", "moded", (ge.MODE,)),
    ("s0", "VfWidget", "deep", (ge.INT, ge.STR, ge.BOOL)),    # deep(int a, QString b = {}, bool c = false): 3 entries
    ("s0", "VfWidget", "paired", (ge.INT, ge.INT)),
    ("s0", "VfWidget", "named", (ge.STR, ge.STR, ge.STR)),
    ("s1", "VfSub", "paired", (ge.INT, ge.INT)),
    ("s0", "VfWidget", "ivalChanged", ()),
    ("s0", "VfWidget", "bvalChanged", (ge.BOOL,)),
    ("s0", "VfWidget", "svalChanged", (ge.STR,)),
    ("btn", "QPushButton", "clicked", (ge.BOOL,)),          # clicked(bool checked = false)
    ("btn", "QPushButton", "toggled", (ge.BOOL,)),
    ("btn", "QPushButton", "pressed", ()),
    ("edit2", "QLineEdit", "cursorPositionChanged", (ge.INT, ge.INT)),
    ("edit2", "QLineEdit", "textEdited", (ge.STR,)),
    ("edit2", "QLineEdit", "returnPressed", ()),
    ("s1", "VfSub", "extraChanged", ()),
    ("s1", "VfSub", "poked", (ge.INT, ge.STR)),             # inherited signal on a derived sender
]
SIGNAL_OWNER = {"paired": "VfWidget", "named": "VfWidget", "fired": "VfWidget", "poked": "VfWidget", "nudged": "VfWidget", "triple": "VfWidget", "told": "VfWidget",
                "pointed": "VfWidget", "ranked": "VfWidget", "moded": "VfWidget", "deep": "VfWidget", "ivalChanged": "VfWidget",
                "bvalChanged": "VfWidget", "svalChanged": "VfWidget", "clicked": "QAbstractButton", "toggled": "QAbstractButton",
                "pressed": "QAbstractButton", "cursorPositionChanged": "QLineEdit", "textEdited": "QLineEdit",
                "returnPressed": "QLineEdit", "extraChanged": "VfSub"}
CXXT = {ge.BOOL: "bool", ge.INT: "int", ge.UINT: "uint", ge.DOUBLE: "double", ge.STR: "QString", ge.MODE: "VfWidget::Mode",
        ge.PTR: "VfWidget*"}
SENDERS = [("s0", "VfWidget"), ("s1", "VfSub"), ("btn", "QPushButton"), ("edit2", "QLineEdit")]

# handlers that must be rejected: (sender class member text, expected message fragment)
NEGATIVE = [
    ("s0", "onOver: {}", "overloaded signal"),                               # true overloads over(int) / over(QString)
    ("s0", "onDoIt: {}", "not a signal"),                                    # a slot
    ("s0", "onTake: function(a: int) {}", "not a signal"),
    ("s0", "onNoSuchThing: {}", "unknown signal"),
    ("s0", "onFired: function(a: int) {}", "too many callback arguments"),
    ("s0", "onTold: function(a: int) {}", "incompatible callback arguments"),
    ("s0", "onPoked: function(a: QString) {}", "incompatible callback arguments"),
    ("s0", "onPoked: function(a: int, b: int) {}", "incompatible callback arguments"),
    ("s0", "onTriple: function(a: int, b: QString, c: bool, d: int) {}", "too many callback arguments"),
    ("s0", "onRanked: function(u: int) {}", "incompatible callback arguments"),
    ("s0", "onRanked: function(u: uint, d: int) {}", "incompatible callback arguments"),
    ("s0", "onNudged: function(on: int) {}", "incompatible callback arguments"),
    ("s0", "onModed: function(m: int) {}", "incompatible callback arguments"),
    ("s0", "onPointed: function(w: VfSub) {}", "incompatible callback arguments"),   # downcast
    ("s0", "onTold: function(s) {}", "type annotation"),
    ("btn", "onClicked: function(c: int) {}", "incompatible callback arguments"),
    ("edit2", "onCursorPositionChanged: function(a: int, b: int, c: int) {}", "too many callback arguments"),
    ("s0", "onTold: function(s: QString, s: QString) {}", "redefinition"),
    ("s0", "onFired: function named() {}", "named function"),
    # families that diverge after a common prefix are true overloads
    ("s0", "onMixed: {}", "overloaded signal"),        # mixed(int), mixed(int,bool), mixed(int,QString)
    ("s0", "onMixed2: {}", "overloaded signal"),       # mixed2(), mixed2(int), mixed2(QString)
    ("s0", "onMixed3: function(a: int) {}", "overloaded signal"),   # mixed3(int,int), mixed3(int), mixed3(int,QString,bool)... see vftypes
    # handlers written on something that is not the object itself: a nested object (pointer property), a gadget, an attached type.
    # They cannot be connected; accepting one silently would leave a handler that never runs
    ("s0", "peer.onFired: {}", "not supported"),
    ("s0", "peer { onFired: console.log(1) }", "not supported"),
    ("s0", "font.onBoldChanged: {}", "not supported"),
    ("s0", "QLayout.onRowChanged: {}", "not supported"),
]
# whole objects holding a handler that cannot be connected (nested objects of Qt's item views)
NEGATIVE_OBJECTS = [
    "QTreeView { header.onSectionClicked: function(index: int) { console.log(index) } }",
    "QTreeView { header { onSectionClicked: console.log(1) } }",
    "QTableView { horizontalHeader.onSectionPressed: {} }",
    "QTableView { verticalHeader { visible: false; onSectionCountChanged: function(a: int, b: int) {} } }",
    "QLabel { font { onBoldChanged: {} } }",
    "QWidget { QVBoxLayout { QLabel { QLayout.onAlignmentChanged: {} } } }",
]
PARAM_ANNOT = dict(ge.ANNOT)
PURE_METHODS = {"twice", "sum", "greet", "test", "half", "other"}


class Handler:
    def __init__(self, sender, cls, signal, sig_types, nparams, form, body, src):
        self.sender, self.cls, self.signal, self.sig_types = sender, cls, signal, sig_types
        self.nparams, self.form, self.body, self.src = nparams, form, body, src
        self.params = [("p%d" % i, sig_types[i]) for i in range(nparams)]
        self.func = None


class CbDoc:
    def __init__(self, rng, n_handlers=8, max_depth=3):
        self.rng = rng
        self.objects = [ge.ObjSpec(i, c) for i, c in exprdoc.SOURCES]
        self.features = set()
        self.handlers = []
        sigs = list(SIGNALS)
        rng.shuffle(sigs)
        used = set()
        for (sender, cls, sig, ats) in sigs:
            if len(self.handlers) >= n_handlers:
                break
            if (sender, sig) in used:
                continue
            used.add((sender, sig))
            env = ge.Env(self.objects, owner=ge.ObjSpec(sender, cls), owner_free=[])
            g = ge.VoidGen(rng, env, max_depth=max_depth, features=self.features)
            nparams = rng.randint(0, len(ats))
            form = rng.choice(("function", "function", "arrow", "block" if nparams == 0 else "function",
                               "expr" if nparams == 0 else "arrow"))
            params = [("p%d" % i, ats[i]) for i in range(nparams)]
            if form == "expr":
                g.locals, g.hidden, g.nlocal, g.no_methods = [{}], set(), 0, True
                body = [g.effect()]
                text = ge.pr_stmts(body, rng, 0)[0].rstrip(";")
            else:
                body = g.body(params)
                if nparams >= 2 and params[-1][1] in (ge.INT, ge.STR, ge.BOOL, ge.DOUBLE, ge.UINT) and rng.random() < 0.7:
                    # the last parameter is reported first: whatever happens to the ones in front of it, it keeps its position
                    body = [ge.N("log", ge.VOID, (ge.N("local", params[-1][1], v=params[-1][0]),), v="log")] + body
                inner = "\n".join(ge.pr_stmts(body, rng, 3))
                # a parameter the body never mentions may be spelled `_` (a placeholder is still a parameter: the ones after
                # it keep their positions)
                shown = {n: n for n, _ in params}
                unused = [n for n, _ in params if not re.search(r"\b%s\b" % n, inner)]
                # (preferably -- and then nearly always -- one that is followed by a parameter the body does use)
                names = [n for n, _ in params]
                lead = [n for n in unused if any(m not in unused for m in names[names.index(n) + 1:])]
                if unused and rng.random() < (0.9 if lead else 0.4):
                    shown[rng.choice(lead or unused)] = "_"
                    self.features.add("placeholder-parameter")
                plist = ", ".join("%s: %s" % (shown[n], PARAM_ANNOT[t]) for n, t in params)
                if form == "block":
                    text = "{\n%s\n        }" % inner
                elif form == "arrow":
                    text = "(%s) => {\n%s\n        }" % (plist, inner)
                else:
                    text = "function(%s) {\n%s\n        }" % (plist, inner)
            self.features.add("handler:%s:%d/%d" % (form, nparams, len(ats)))
            self.handlers.append(Handler(sender, cls, sig, ats, nparams, form, body, "on%s%s: %s" % (sig[0].upper(), sig[1:], text)))
        self.source = self.to_qml()

    def to_qml(self, extra=None):
        L = ["import qmluic.QtWidgets", "QWidget {", "    id: root"]
        for i, c in exprdoc.SOURCES:
            L.append("    %s { id: %s }" % (c, i))
        pos = len("\n".join(L).encode("utf-8")) + 1
        for sid, cls in SENDERS:
            for line in ("    %s {" % cls, "        id: %s" % sid):
                L.append(line)
                pos += len(line.encode("utf-8")) + 1
            for h in self.handlers:
                if h.sender == sid:
                    line = "        " + h.src
                    h.span = (pos, pos + len(line.encode("utf-8")))
                    L.append(line)
                    pos += len(line.encode("utf-8")) + 1
            if extra and extra[0] == sid:
                L.append("        " + extra[1])
                pos += len(("        " + extra[1]).encode("utf-8")) + 1
            L.append("    }")
            pos += 6
        L += ["}", ""]
        return "\n".join(L)

    def drop_rejected(self, diagnostics):
        bad = [h for h in self.handlers
               if any(d["kind"] == "error" and h.span[0] <= d["start"] <= h.span[1] for d in diagnostics)]
        if bad:
            self.handlers = [h for h in self.handlers if h not in bad]
            self.source = self.to_qml()
        return bad

    @property
    def bindings(self):
        return self.handlers

    def make_cases(self, n):
        """[(state, {handler index: args})]"""
        ed = exprdoc.ExprDoc.__new__(exprdoc.ExprDoc)
        ed.rng, ed.objects, ed.targets, ed.bindings = self.rng, self.objects, ["s0", "s1"], []
        states = []
        lints, lstrs = [], []
        ids = [o.id for o in self.objects if o.is_vf()]
        for k in range(n):
            mild = (k % 2 == 0)
            st = {}
            for o in self.objects:
                if o.is_vf():
                    st[o.id] = ed.vf_state(mild, lints, lstrs, ids)
                else:
                    st[o.id] = {p: ed.value(t, mild, lints, lstrs, ids) for p, t in exprdoc.QT_STATE[o.id]}
            for sid in ("s0", "s1"):
                st[sid] = ed.vf_state(mild, lints, lstrs, ids)
            args = {}
            for hi, h in enumerate(self.handlers):
                args[hi] = [ed.value(t, mild, lints, lstrs, ids) for t in h.sig_types]
            states.append((st, args))
        return states

    def expected_signal_id(self, h):
        return "%s::%s(%s)" % (SIGNAL_OWNER[h.signal], h.signal, ",".join(CXXT[t] for t in h.sig_types))


def driver(doc, cases, plan):
    """plan: [(case index, handler index)] defined pairs.  The driver re-applies the state before each emission."""
    L = [exprdoc.DRIVER_HEAD, "int main() {", "    QWidget root;", "    Ui::MyType ui;", "    ui.setupUi(&root);",
         "    UiSupport::MyType sup(&root, &ui);", "    std::map<std::string, QObject *> objs;"]
    for oid in [o.id for o in doc.objects] + ["s0", "s1"]:
        L.append("    objs[\"%s\"] = ui.%s;" % (oid, oid))
    L += ["    qvm::tag() = \"setup\";", "    sup.setup();", "    QvmStates st;", "    if (!st.load(\"states.txt\")) return 90;"]
    for (ci, hi) in plan:
        h = doc.handlers[hi]
        st, args = cases[ci]
        argl = ", ".join(cxxrun.cxx_literal(t, v) for t, v in zip(h.sig_types, args[hi]))
        L.append("    qvm::quiet() = true; st.apply(objs, %d); qvm::quiet() = false;" % ci)
        L.append("    qvm::tag() = \"c%d.h%d\"; qvm::put(\"\\\"ev\\\":\\\"begin\\\"\");" % (ci, hi))
        L.append("    ui.%s->%s(%s);" % (h.sender, h.signal, argl))
        L.append("    qvm::put(\"\\\"ev\\\":\\\"end\\\"\");")
    L += ["    qvm::tag() = \"end\";", "    qvm::put(\"\\\"ev\\\":\\\"done\\\"\");", "    return 0;", "}"]
    return "\n".join(L) + "\n"


def write_states(d, cases):
    import os
    with open(os.path.join(d, "states.txt"), "w") as f:
        for ci, (st, _) in enumerate(cases):
            f.write("S %d\n" % ci)
            for oid, props in st.items():
                for p, v in props.items():
                    f.write("%s %s %s\n" % (oid, p, exprdoc.encode_state_value(exprdoc.type_of_prop(oid, p), v)))


def expected_trace(effects):
    """Reference effects -> the event shape of the model log."""
    out = []
    for e in effects:
        if e[0] == "write":
            _, o, p, t, v = e
            out.append(("write", o, p, cxxrun.encode_expected(t, v)))
        elif e[0] == "call":
            _, o, m, args = e
            out.append(("call", o, m, tuple(cxxrun.encode_expected(t, v) for t, v in args)))
        else:
            _, lv, items = e
            level = {"log": "debug", "debug": "debug", "info": "info", "warn": "warning", "error": "critical"}[lv]
            out.append(("log", level, tuple(cxxrun.encode_expected(t, v) for t, v in items)))
    return out


def observed_trace(events):
    out = []
    for e in events:
        ev = e.get("ev")
        if ev == "write":
            out.append(("write", e["obj"], e["prop"], cxxrun.decode(e["value"])))
        elif ev == "call":
            out.append(("call", e["obj"], e["method"], tuple(cxxrun.decode(x) for x in e["args"])))
        elif ev == "log":
            items = []
            for x in e["items"]:
                if isinstance(x, str):
                    # narrow string literal streamed as const char*: the log holds its UTF-8 bytes
                    from . import strings
                    items.append(("s", tuple(strings.utf16_units(x.encode("latin-1", "replace").decode("utf-8", "replace")))))
                else:
                    items.append(cxxrun.decode(x))
            out.append(("log", e["level"], tuple(items)))
    return out
