"""Independent reader of emitted .ui files (expat) and the ui4 grammar subset qmluic may emit."""
import xml.parsers.expat


class Node:
    __slots__ = ("tag", "attrs", "children", "text", "parent", "attr_order")

    def __init__(self, tag, attrs, parent=None):
        self.tag = tag
        self.attrs = attrs
        self.children = []
        self.text = ""
        self.parent = parent
        self.attr_order = list(attrs)

    def find(self, tag):
        for c in self.children:
            if c.tag == tag:
                return c
        return None

    def findall(self, tag):
        return [c for c in self.children if c.tag == tag]

    def walk(self):
        yield self
        for c in self.children:
            yield from c.walk()

    def to_obj(self):
        return {"tag": self.tag, "attrs": self.attrs, "text": self.text,
                "children": [c.to_obj() for c in self.children]}

    def __repr__(self):
        return "<%s %r>" % (self.tag, self.attrs)


class UiSyntaxError(Exception):
    pass


def parse(data):
    """bytes or str -> root Node; raises UiSyntaxError if expat rejects it (well-formedness)."""
    if isinstance(data, str):
        data = data.encode("utf-8", "surrogatepass")
    p = xml.parsers.expat.ParserCreate("UTF-8")
    p.ordered_attributes = True
    p.buffer_text = True
    root = [None]
    stack = []
    dup_attr = []

    def start(tag, attrs):
        d = {}
        for i in range(0, len(attrs), 2):
            if attrs[i] in d:
                dup_attr.append((tag, attrs[i]))
            d[attrs[i]] = attrs[i + 1]
        n = Node(tag, d, stack[-1] if stack else None)
        if stack:
            stack[-1].children.append(n)
        else:
            root[0] = n
        stack.append(n)

    def end(tag):
        stack.pop()

    def chars(s):
        if stack:
            stack[-1].text += s

    p.StartElementHandler = start
    p.EndElementHandler = end
    p.CharacterDataHandler = chars
    try:
        p.Parse(data, True)
    except xml.parsers.expat.ExpatError as e:
        err = UiSyntaxError(str(e))
        err.lineno, err.offset = e.lineno, e.offset
        # character the parser stopped at
        try:
            i = p.ErrorByteIndex
            err.char = data[i:i + 4].decode("utf-8", "ignore")[:1] if i >= 0 else None
        except Exception:
            err.char = None
        raise err
    if root[0] is None:
        raise UiSyntaxError("no root element")
    return root[0]


# ---------------------------------------------------------------------------------------------
# value decoding

VALUE_TAGS = {
    "bool", "number", "string", "cstring", "enum", "set", "cursorShape", "pixmap", "stringlist",
    "color", "brush", "font", "iconset", "margins", "palette", "rect", "size", "sizepolicy",
    "colorgroup",
}


def text_of(n):
    """Character data of a leaf element (text of element-only content is ignorable blanks)."""
    return n.text


def decode_value(n):
    """Value element -> comparable Python structure."""
    t = n.tag
    if t == "bool":
        return ("bool", n.text)
    if t == "number":
        return ("number", n.text)
    if t == "string":
        return ("string", n.text, n.attrs.get("notr") == "true")
    if t in ("cstring", "enum", "set", "cursorShape", "pixmap"):
        return (t, n.text)
    if t == "stringlist":
        return ("stringlist", [c.text for c in n.children if c.tag == "string"], n.attrs.get("notr") == "true")
    if t == "color":
        d = {c.tag: c.text for c in n.children}
        return ("color", n.attrs.get("alpha"), d.get("red"), d.get("green"), d.get("blue"))
    # generic gadget: attrs + children decoded recursively by tag name
    return (t, dict(n.attrs), [(c.tag, dict(c.attrs), decode_any(c)) for c in n.children])


def decode_any(n):
    if n.children:
        if n.tag in VALUE_TAGS:
            return decode_value(n)
        return [(c.tag, dict(c.attrs), decode_any(c)) for c in n.children]
    return n.text


# ---------------------------------------------------------------------------------------------
# ui4 grammar subset (from Qt's ui4.xsd as consumed by uic, restricted to what qmluic can emit)

# element -> (allowed attributes, allowed child elements)
GRAMMAR = {
    "ui": ({"version"}, {"class", "widget", "customwidgets"}),
    "class": (set(), set()),
    "widget": ({"class", "name"}, {"attribute", "property", "addaction", "item", "widget", "layout", "action"}),
    "layout": ({"class", "name", "stretch", "rowstretch", "columnstretch", "rowminimumheight",
                "columnminimumwidth"}, {"property", "item"}),
    # <item> is either a layout item (under layout) or a model item (under widget)
    "item": ({"row", "column", "rowspan", "colspan", "alignment"}, {"widget", "layout", "spacer", "property"}),
    "spacer": ({"name"}, {"property"}),
    "action": ({"name"}, {"property", "attribute"}),
    "addaction": ({"name"}, set()),
    "property": ({"name", "stdset"}, VALUE_TAGS),
    "attribute": ({"name", "stdset"}, VALUE_TAGS),
    "customwidgets": (set(), {"customwidget"}),
    "customwidget": (set(), {"class", "extends", "header"}),
    "extends": (set(), set()),
    "header": (set(), set()),
    # values
    "bool": (set(), set()), "number": (set(), set()), "cstring": (set(), set()),
    "enum": (set(), set()), "set": (set(), set()), "cursorShape": (set(), set()),
    "pixmap": (set(), set()),
    "string": ({"notr"}, set()),
    "stringlist": ({"notr"}, {"string"}),
    "color": ({"alpha"}, {"red", "green", "blue"}),
    "red": (set(), set()), "green": (set(), set()), "blue": (set(), set()),
    "brush": ({"brushstyle"}, {"color"}),
    "font": (set(), {"family", "pointsize", "weight", "italic", "bold", "underline", "strikeout",
                     "stylestrategy", "kerning"}),
    "iconset": ({"theme"}, {"normaloff", "normalon", "disabledoff", "disabledon", "activeoff",
                            "activeon", "selectedoff", "selectedon"}),
    "rect": (set(), {"x", "y", "width", "height"}),
    "size": (set(), {"width", "height"}),
    "sizepolicy": ({"hsizetype", "vsizetype"}, {"horstretch", "verstretch"}),
    "palette": (set(), {"active", "inactive", "disabled"}),
    "active": (set(), {"colorrole"}), "inactive": (set(), {"colorrole"}), "disabled": (set(), {"colorrole"}),
    "colorrole": ({"role"}, {"brush"}),
}
for leaf in ("family", "pointsize", "weight", "italic", "bold", "underline", "strikeout",
             "stylestrategy", "kerning", "normaloff", "normalon", "disabledoff", "disabledon",
             "activeoff", "activeon", "selectedoff", "selectedon", "x", "y", "width", "height",
             "horstretch", "verstretch"):
    GRAMMAR[leaf] = (set(), set())

STRUCTURAL = {"ui", "class", "widget", "layout", "item", "spacer", "action", "addaction", "property", "attribute",
              "customwidgets", "customwidget", "extends", "header"}

PARENT_SPECIFIC = {
    # (parent, child) pairs that are NOT allowed although the child is in the parent's set
    ("item", "property"): lambda item: item.parent is not None and item.parent.tag == "widget",
    ("item", "widget"): lambda item: item.parent is not None and item.parent.tag == "layout",
    ("item", "layout"): lambda item: item.parent is not None and item.parent.tag == "layout",
    ("item", "spacer"): lambda item: item.parent is not None and item.parent.tag == "layout",
}


def grammar_alarms(root, strict_values=True):
    """List of human-readable deviations from the transcribed grammar."""
    alarms = []
    if root.tag != "ui" or root.attrs.get("version") != "4.0":
        alarms.append("root element is <%s version=%r>" % (root.tag, root.attrs.get("version")))
    for n in root.walk():
        g = GRAMMAR.get(n.tag)
        if g is None:
            alarms.append("unknown element <%s> under <%s>" % (n.tag, n.parent.tag if n.parent else None))
            continue
        attrs, kids = g
        if n.tag in STRUCTURAL:
            # the property speaks of element structure; unknown attributes are flagged on the
            # structural elements only (uic ignores extra attributes on value elements)
            for a in n.attrs:
                if a not in attrs:
                    alarms.append("attribute %s on <%s>" % (a, n.tag))
        for c in n.children:
            if c.tag not in kids:
                alarms.append("<%s> under <%s>" % (c.tag, n.tag))
            else:
                cond = PARENT_SPECIFIC.get((n.tag, c.tag))
                if cond is not None and not cond(n):
                    alarms.append("<%s> under <%s> under <%s>" % (c.tag, n.tag, n.parent.tag if n.parent else None))
        if n.tag in ("property", "attribute"):
            if len(n.children) != 1:
                alarms.append("<%s name=%r> has %d value elements" % (n.tag, n.attrs.get("name"), len(n.children)))
            if "name" not in n.attrs:
                alarms.append("<%s> without name" % n.tag)
        if n.tag in ("widget", "layout"):
            for req in ("class", "name"):
                if req not in n.attrs:
                    alarms.append("<%s> without %s" % (n.tag, req))
        if n.tag in ("spacer", "action", "addaction") and "name" not in n.attrs:
            alarms.append("<%s> without name" % n.tag)
        if n.tag == "item" and n.parent is not None and n.parent.tag == "layout":
            content = [c for c in n.children if c.tag in ("widget", "layout", "spacer")]
            if len(content) != 1:
                alarms.append("layout <item> with %d contents" % len(content))
        # duplicate property names within an element
        for kind in ("property", "attribute"):
            names = [c.attrs.get("name") for c in n.children if c.tag == kind]
            dups = sorted({x for x in names if names.count(x) > 1})
            if dups:
                alarms.append("duplicate %s names %r in <%s name=%r>" % (kind, dups, n.tag, n.attrs.get("name")))
        # elements whose content is only child elements must not carry stray text
        if n.children and n.text.strip():
            alarms.append("stray text %r in <%s>" % (n.text.strip()[:20], n.tag))
    tops = [c.tag for c in root.children]
    if tops.count("class") != 1:
        alarms.append("%d <class> elements" % tops.count("class"))
    if tops.count("widget") != 1:
        alarms.append("%d root <widget> elements" % tops.count("widget"))
    if tops.count("customwidgets") > 1:
        alarms.append("several <customwidgets>")
    return alarms


def named_objects(root):
    """[(element kind, name, class or None, node)] for widgets, layouts, spacers, actions."""
    out = []
    for n in root.walk():
        if n.tag in ("widget", "layout", "spacer", "action") and "name" in n.attrs:
            out.append((n.tag, n.attrs["name"], n.attrs.get("class"), n))
    return out


def properties_of(n, kind="property"):
    return {c.attrs.get("name"): c for c in n.children if c.tag == kind}
