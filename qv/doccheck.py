"""Shared: translate generated documents through qvh and relate the .ui to the abstract tree."""
from . import common, uiparse
from .gen_doc import Group

ELEM_OF_KIND = {"widget": "widget", "menu": "widget", "layout": "layout", "spacer": "spacer", "action": "action"}


def translate_docs(docs, modes=("generate",), want=("ui",), tag="d", extra=None):
    jobs = []
    for i, d in enumerate(docs):
        j = {"id": "d%d" % i, "source": d.source, "type_name": d.type_name, "modes": list(modes), "want": list(want)}
        if getattr(d, "path", None):
            # document lives on disk next to its custom components
            with open(d.path, "w") as f:
                f.write(d.source)
            j["path"] = d.path
            j["source"] = ""
        if extra:
            j.update(extra)
        jobs.append(j)
    out = common.translate(jobs, tag=tag)
    res = []
    for i, d in enumerate(docs):
        rs = out.results.get("d%d" % i)
        res.append(common.by_mode(rs) if rs else None)
    return res, out


def accepted(r):
    return bool(r) and r.get("built") and not r.get("has_error") and not r.get("panic") and not r.get("has_syntax_error")


def content_children(elem):
    """Child elements of a widget/layout element that stand for QML objects, in order."""
    out = []
    for c in elem.children:
        if c.tag in ("widget", "layout", "action", "spacer"):
            out.append(c)
        elif c.tag == "item" and elem.tag == "layout":
            out.append(c)
    return out


def match_tree(doc, ui_root):
    """Relate abstract objects to .ui elements.

    Returns (mapping obj -> element, alarms).  Alarms describe any deviation from: each object
    exactly once, as the element kind of its class, inside its parent's element (through <item>
    under a layout), siblings in source order, class attribute = class name.
    """
    alarms = []
    mapping = {}
    w = ui_root.find("widget")
    if w is None:
        return mapping, [("no-root", "no root <widget>")]

    def visit(o, elem):
        mapping[o] = elem
        want_tag = ELEM_OF_KIND[o.kind]
        if elem.tag != want_tag:
            alarms.append(("kind", "object %s (%s) emitted as <%s>, expected <%s>" % (o.name_hint(), o.cls, elem.tag, want_tag)))
        if o.kind != "spacer" and o.kind != "action":
            if elem.attrs.get("class") != o.cls:
                alarms.append(("class", "object %s: class attribute %r, expected %r" % (o.name_hint(), elem.attrs.get("class"), o.cls)))
        if o.id is not None and elem.attrs.get("name") != o.id:
            alarms.append(("id-name", "object with id %s is named %r" % (o.id, elem.attrs.get("name"))))
        exp = [c for c in o.children if c.kind != "separator"]
        got = content_children(elem)
        if len(exp) != len(got):
            alarms.append(("children", "object %s (%s): %d child objects in the source, %d child elements %r in the .ui"
                          % (o.name_hint(), o.cls, len(exp), len(got),
                             [(g.tag, g.attrs.get("class"), g.attrs.get("name")) for g in got][:8])))
        for c, g in zip(exp, got):
            if o.kind == "layout":
                if g.tag != "item":
                    alarms.append(("item", "child %s of layout %s is not wrapped in <item>" % (c.name_hint(), o.name_hint())))
                    inner = g
                else:
                    cont = [x for x in g.children if x.tag in ("widget", "layout", "spacer")]
                    if len(cont) != 1:
                        alarms.append(("item", "layout item of %s holds %d contents" % (o.name_hint(), len(cont))))
                        continue
                    inner = cont[0]
                    c.item_elem = g
            else:
                inner = g
            visit(c, inner)

    visit(doc.root, w)
    # every object-like element must be claimed exactly once
    claimed = {id(e) for e in mapping.values()}
    for n in ui_root.walk():
        if n.tag in ("widget", "layout", "spacer", "action") and id(n) not in claimed:
            alarms.append(("extra", "element <%s class=%r name=%r> does not correspond to any source object"
                           % (n.tag, n.attrs.get("class"), n.attrs.get("name"))))
    return mapping, alarms


def expected_addactions(o, mapping):
    names = getattr(o, "explicit_actions", None)
    if names is not None:
        return list(names)
    out = []
    for c in o.children:
        if c.kind == "separator":
            out.append("separator")
        elif c.kind in ("action", "menu"):
            e = mapping.get(c)
            out.append(e.attrs.get("name") if e is not None else "?")
    return out


def doc_shape(doc):
    def sh(o):
        return "%s%s(%s)" % (o.cls, "#" if o.id else "", ",".join(sh(c) for c in o.children))
    return common.shash(sh(doc.root))


def sample_of(doc, ui=None, limit=1500):
    s = {"qml": doc.source[:limit]}
    if ui is not None:
        s["ui"] = ui[:limit]
    return s


# ---------------------------------------------------------------------------------------------
# where a constant binding must surface in the .ui

def _values_equal(exp, got):
    """exp: expected decoded value (generator), got: uiparse.decode_value result."""
    from .gen_doc import num_eq
    if exp is None:
        return True
    if exp[0] == "number":
        return got[0] == "number" and num_eq(got[1], exp[1])
    return tuple(exp) == tuple(got) if not isinstance(exp, tuple) or exp[0] not in ("stringlist",) else (
        got[0] == "stringlist" and list(got[1]) == list(exp[1]) and got[2] == exp[2])


def surface_of(b, mapping):
    """-> (status, expected, observed) for a constant scalar Binding (incl. group members).

    status: ok | missing | mismatch | n/a
    """
    o = b.owner
    elem = mapping.get(o)
    if elem is None or b.vkind != "const":
        return "n/a", None, None
    exp = b.expect
    if exp is None:
        return "n/a", None, None
    props = uiparse.properties_of(elem, "property")
    attrs = uiparse.properties_of(elem, "attribute")

    def value_of(holder):
        if holder is None or len(holder.children) != 1:
            return None
        return holder.children[0]

    # pseudo surfaces
    if exp[0] == "property" and len(exp) == 3 and isinstance(exp[2], tuple):
        ve = value_of(props.get(exp[1]))
        if ve is None:
            return "missing", exp, None
        got = uiparse.decode_value(ve)
        return ("ok" if _values_equal(exp[2], got) else "mismatch"), exp, got
    if exp[0] == "attribute" and len(exp) == 3 and isinstance(exp[2], tuple):
        ve = value_of(attrs.get(exp[1]))
        if ve is None:
            return "missing", exp, None
        got = uiparse.decode_value(ve)
        return ("ok" if _values_equal(exp[2], got) else "mismatch"), exp, got
    if exp[0] == "items":
        items = [c for c in elem.children if c.tag == "item"]
        got = []
        for it in items:
            p = uiparse.properties_of(it).get("text")
            ve = value_of(p)
            got.append(uiparse.decode_value(ve)[1:] if ve is not None else None)
        want = [(s, notr) for (s, notr) in exp[1]]
        return ("ok" if got == want else ("missing" if len(got) != len(want) else "mismatch")), want, got
    if exp[0] == "actions":
        got = [c.attrs.get("name") for c in elem.children if c.tag == "addaction"]
        return ("ok" if got == list(exp[1]) else "mismatch"), list(exp[1]), got
    if b.surface == "pseudo":
        return "n/a", None, None

    if b.attached:
        ve = value_of(attrs.get(b.path[-1]))
        if ve is None:
            return "missing", exp, None
        got = uiparse.decode_value(ve)
        return ("ok" if _values_equal(exp, got) else "mismatch"), exp, got

    if len(b.path) == 1:
        ve = value_of(props.get(b.path[0]))
        if ve is None:
            return "missing", exp, None
        got = uiparse.decode_value(ve)
        return ("ok" if _values_equal(exp, got) else "mismatch"), exp, got

    # gadget member
    ge = value_of(props.get(b.path[0]))
    if ge is None:
        return "missing", exp, None
    if exp[0] == "attr":
        got = ge.attrs.get(exp[1])
        return ("ok" if got == exp[2] else ("missing" if got is None else "mismatch")), exp, got
    if exp[0] == "child":
        c = ge.find(exp[1])
        if c is None:
            return "missing", exp, None
        return ("ok" if c.text == exp[2] else "mismatch"), exp, c.text
    c = ge.find(b.path[1].lower())
    if c is None:
        return "missing", exp, None
    # member elements are written with the member's (lower-cased) name as tag
    if exp[0] == "number":
        from .gen_doc import num_eq
        return ("ok" if num_eq(c.text, exp[1]) else "mismatch"), exp, c.text
    if exp[0] == "string":
        got = ("string", c.text, c.attrs.get("notr") == "true")
        return ("ok" if got == tuple(exp) else "mismatch"), exp, got
    return ("ok" if c.text == exp[1] else "mismatch"), exp, c.text
