"""Compile and run generated support headers against the API model under sanitizers / valgrind."""
import json
import os
import subprocess

from . import common, cxxmodel

CXXFLAGS = ["-std=c++17", "-O0", "-g", "-Wall", "-Wno-unused-label", "-Wno-unused-variable", "-Wno-unused-but-set-variable",
            "-Werror=return-type"]
SAN = ["-fsanitize=address,undefined", "-fno-sanitize-recover=all", "-fno-omit-frame-pointer"]
RUN_ENV = {"ASAN_OPTIONS": "detect_leaks=0:abort_on_error=0:exitcode=99", "UBSAN_OPTIONS": "print_stacktrace=1:halt_on_error=1:exitcode=99"}

# reserved exit statuses of the model runtime
EXIT_UNREACHABLE, EXIT_RUNAWAY, EXIT_OOB, EXIT_SANITIZER = 98, 97, 96, 99


def write_case(d, ui_text, header_text, main_cpp, type_name="MyType"):
    os.makedirs(d, exist_ok=True)
    uih, cls, rootc, members = cxxmodel.mini_uic(ui_text)
    low = type_name.lower()
    with open(os.path.join(d, "ui_%s.h" % low), "w") as f:
        f.write(uih)
    with open(os.path.join(d, "uisupport_%s.h" % low), "w") as f:
        f.write(header_text)
    with open(os.path.join(d, "main.cpp"), "w") as f:
        f.write(main_cpp)
    return cls, rootc, members


def compile_case(d, sanitize=True, syntax_only=False, out="prog"):
    """-> (ok, stderr)"""
    md = cxxmodel.model_dir()
    san = SAN if sanitize is True else (["-fsanitize=address", "-fno-omit-frame-pointer"] if sanitize == "address" else [])
    cmd = ["g++"] + CXXFLAGS + (san if not syntax_only else []) + ["-I", md, "-I", d, os.path.join(d, "main.cpp")]
    cmd += ["-fsyntax-only"] if syntax_only else ["-o", os.path.join(d, out)]
    try:
        p = subprocess.run(cmd, capture_output=True, text=True, timeout=300)
    except subprocess.TimeoutExpired:
        return None, "compiler timeout"
    return p.returncode == 0, p.stderr


def run_case(d, prog="prog", valgrind=False, timeout=120):
    """-> (status, events list, stderr).  status: int exit code, negative = signal, 'timeout'."""
    exe = os.path.join(d, prog)
    env = dict(os.environ)
    env.update(RUN_ENV)
    cmd = [exe]
    if valgrind:
        cmd = ["valgrind", "-q", "--error-exitcode=95", "--track-origins=yes", "--leak-check=no", exe]
    try:
        p = subprocess.run(cmd, capture_output=True, timeout=timeout * (20 if valgrind else 1), env=env, cwd=d)
        status = p.returncode
        out, err = p.stdout, p.stderr.decode("utf-8", "replace")
    except subprocess.TimeoutExpired as e:
        status, out, err = "timeout", e.stdout or b"", "timeout"
    events = []
    for line in out.decode("utf-8", "replace").splitlines():
        line = line.strip()
        if not line.startswith("{"):
            continue
        try:
            events.append(json.loads(line))
        except ValueError:
            pass
    return status, events, err


# ---------------------------------------------------------------------------------------------
# value encoding shared by drivers and oracles

def decode(v):
    """JSON value printed by qvm::show -> comparable Python value (tagged)."""
    if isinstance(v, bool) or isinstance(v, int):
        return v
    if isinstance(v, dict):
        if "u" in v:
            return ("u", v["u"])
        if "d" in v:
            return ("d", v["d"])
        if "s" in v:
            return ("s", tuple(v["s"]))
        if "e" in v:
            return ("e", v["e"])
        if "o" in v:
            return ("o", v["o"])
        if "list" in v:
            return ("list", tuple(decode(x) for x in v["list"]))
        if "l" in v:
            return ("l", v["l"])
        if "v" in v:
            return ("v", decode(v["v"]) if v["v"] is not None else None)
        if "f" in v:
            return ("f", v["f"])
        if "gadget" in v:
            return ("gadget", v["gadget"])
    return ("?", json.dumps(v))


def encode_expected(t, v):
    """Reference value of static type t -> the same tagged shape as decode()."""
    from . import gen_expr as ge
    from . import strings
    if t == ge.BOOL:
        return bool(v)
    if t == ge.INT:
        return int(v)
    if t == ge.UINT:
        return ("u", int(v))
    if t == ge.DOUBLE:
        return ("d", ge.double_bits(float(v)))
    if t == ge.STR:
        return ("s", tuple(strings.utf16_units(v)))
    if t == ge.MODE:
        return ("e", int(v))
    if t == ge.PTR:
        return ("o", v if v is not None else "null")
    if t == ge.SLIST:
        return ("list", tuple(("s", tuple(strings.utf16_units(x))) for x in v))
    raise ValueError(t)


def cxx_literal(t, v):
    """C++ expression for a state value of static type t (used to set model fields quietly)."""
    from . import gen_expr as ge
    from . import strings
    if t == "variant":
        return "QVariant(%s)" % cxx_literal(v[0], v[1])
    if t == ge.BOOL:
        return "true" if v else "false"
    if t == ge.INT:
        return "(%d - 1)" % (v + 1) if v == ge.INT_MIN else str(v)
    if t == ge.UINT:
        return "%du" % v
    if t == ge.DOUBLE:
        import math
        if math.isinf(v):
            return "(1.0 / 0.0)" if v > 0 else "(-1.0 / 0.0)"
        return "%r" % v if "e" in repr(v) or "." in repr(v) else "%r.0" % v
    if t == ge.STR:
        units = strings.utf16_units(v)
        return "QString(std::u16string{%s})" % ", ".join("(char16_t)%d" % u for u in units)
    if t == ge.MODE:
        return "VfWidget::%s" % ge.MODES[v]
    if t == ge.PTR:
        return "nullptr" if v is None else ("ui.%s" % v)
    if t == ge.SLIST:
        return "QStringList{%s}" % ", ".join(cxx_literal(ge.STR, x) for x in v)
    raise ValueError(t)
