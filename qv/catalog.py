"""Read-only view of the (tweaked) type information dumped by `qvh dump-types`.

The generators use it to pick classes, properties, enums and signals that exist; the C++ API
model is generated from the same dump.
"""
import json
import os

from . import common

_CACHE = {}


def load():
    path = os.path.join(common.WORK, "types", "classes.json")
    key = (path, os.path.getmtime(path) if os.path.exists(path) else 0)
    if key in _CACHE:
        return _CACHE[key]
    import subprocess
    p = subprocess.run([common.QVH, "dump-types", "--types"] + common.type_paths() + ["--out", path],
                       capture_output=True, text=True)
    if p.returncode != 0:
        raise common.HarnessError("qvh dump-types failed: " + p.stderr[-1000:])
    cat = Catalog(json.load(open(path)))
    _CACHE[(path, os.path.getmtime(path))] = cat
    return cat


class Catalog:
    def __init__(self, classes):
        self.classes = classes
        self.by = {}
        for c in classes:
            self.by[c["className"]] = c   # later wins, as in the real name map
        self._supers = {}
        self._props = {}

    def supers(self, name):
        """Public ancestors-or-self in breadth-first order."""
        if name in self._supers:
            return self._supers[name]
        out, seen, q = [], set(), [name]
        while q:
            x = q.pop(0)
            if x in seen or x not in self.by:
                continue
            seen.add(x)
            out.append(x)
            q += [s["name"] for s in self.by[x].get("superClasses", []) if s["access"] == "public"]
        self._supers[name] = out
        return out

    def is_a(self, name, base):
        return base in self.supers(name)

    def props(self, name):
        """name -> (property dict, declaring class); own declaration first."""
        if name in self._props:
            return self._props[name]
        d = {}
        for c in self.supers(name):
            for p in self.by[c].get("properties", []):
                d.setdefault(p["name"], (p, c))
        self._props[name] = d
        return d

    def prop(self, cls, pname):
        return self.props(cls).get(pname, (None, None))[0]

    def resolve_enum(self, cls, type_name):
        """-> (owner class name, enum dict) for a property type name, or None."""
        if "::" in type_name:
            owner, en = type_name.rsplit("::", 1)
            cands = [owner]
        else:
            en = type_name
            cands = self.supers(cls)
        for c in cands:
            if c not in self.by:
                continue
            for x in self.supers(c) if "::" in type_name else [c]:
                for e in self.by[x].get("enums", []):
                    if e["name"] == en:
                        return x, e
        return None

    def enum_values(self, owner, e):
        if e.get("values"):
            return e["values"]
        if e.get("alias"):
            for x in self.by[owner].get("enums", []):
                if x["name"] == e["alias"]:
                    return x.get("values", [])
        return []

    def methods(self, cls, kinds=("signals", "slots", "methods")):
        """name -> list of (kind, method dict, declaring class) of the first class that declares it."""
        d = {}
        for c in self.supers(cls):
            here = {}
            for k in kinds:
                for m in self.by[c].get(k, []):
                    if m.get("access", "public") == "public":
                        here.setdefault(m["name"], []).append((k, m, c))
            for n, ms in here.items():
                d.setdefault(n, ms)
        return d


def qtify(type_name):
    """Generated-name prefix of a class (uic's Driver::qtify as documented in qtname.rs)."""
    s = type_name
    if s[:1] in ("Q", "K") and len(s) > 1 and s[1].isascii() and s[1].isalpha():
        s = s[1:]
    out = []
    i = 0
    while i < len(s):
        c = s[i]
        out.append(c.lower() if c.isascii() else c)
        i += 1
        if not (c.isascii() and c.isupper()):
            break
    return "".join(out) + s[i:]


def cap(s):
    return s[:1].upper() + s[1:] if s[:1].isascii() and s[:1].islower() else s
