"""Generates the C++ declarations of the Qt API model from the SAME (tweaked) type information
qmluic loads (qvh dump-types), plus mini-uic (ui_<name>.h from an emitted .ui)."""
import os
import re

from . import catalog, common, uiparse

PRIMS = {"bool": "bool", "int": "int", "uint": "uint", "double": "double", "qreal": "double", "QString": "QString",
         "QStringList": "QStringList", "QVariant": "QVariant"}
GADGETS = ["QMargins", "QRect", "QSize", "QColor", "QBrush", "QCursor", "QPixmap", "QFont", "QIcon", "QKeySequence",
           "QPaletteColorGroup", "QPalette", "QSizePolicy"]
BASE_CLASSES = ["QAction", "QMenu", "QMenuBar", "QToolBar", "QStatusBar", "QTabWidget", "QSpacerItem", "QHeaderView",
                "QColorDialog", "QGraphicsView", "QButtonGroup", "QAbstractItemModel"]

# semantics of the value-returning methods of the synthetic VfWidget (shared with the reference interpreter)
VF_METHOD_BODIES = {
    "twice": "return a0 / 2 + 1;",
    "sum": "return a0 / 2 + a1 / 2;",
    "greet": "return QStringLiteral(\"<\") + a0 + QStringLiteral(\">\");",
    "test": "return a0 < a1;",
    "half": "return a0 / 2;",
    "other": "return m_peer2;",
}


def model_classes():
    from . import gen_doc
    return sorted(set(gen_doc.ROOT_CLASSES + gen_doc.CONTAINERS + gen_doc.LEAVES + gen_doc.LAYOUTS + BASE_CLASSES +
                      ["VfWidget", "VfSub", "VfOther"]))


class ModelGen:
    def __init__(self, cat=None):
        self.cat = cat or catalog.load()
        wanted = set()
        for c in model_classes():
            if c in self.cat.by:
                wanted.update(self.cat.supers(c))
        wanted.add("Qt")
        self.objects = [c for c in self.topo(wanted) if c not in GADGETS and c != "Qt"]
        self.known = set(self.objects) | set(GADGETS)
        self.objects = self.order_by_enum_use(self.objects)

    def order_by_enum_use(self, objs):
        """A class using another class's nested enum by value must come after that class."""
        deps = {}
        for c in objs:
            d = set(s["name"] for s in self.cat.by[c].get("superClasses", []) if s["access"] == "public" and s["name"] in objs)
            cd = self.cat.by[c]
            tnames = [p["type"] for p in cd.get("properties", [])]
            for k in ("signals", "slots", "methods"):
                for m in cd.get(k, []):
                    tnames += [a["type"] for a in m.get("arguments", [])] + [m.get("returnType", "void")]
            for t in tnames:
                r = self.cat.resolve_enum(c, t.replace("const ", "").replace("&", "").strip()) if not t.endswith("*") else None
                if r and r[0] in objs and r[0] != c and c not in self.cat.supers(r[0]):
                    d.add(r[0])
            deps[c] = d
        out, seen = [], set()

        def visit(n, stack=()):
            if n in seen or n in stack:
                return
            for d in sorted(deps[n]):
                visit(d, stack + (n,))
            seen.add(n)
            out.append(n)
        for n in objs:
            visit(n)
        return out

    def topo(self, names):
        out, seen = [], set()

        def visit(n):
            if n in seen or n not in self.cat.by:
                return
            seen.add(n)
            for s in self.cat.by[n].get("superClasses", []):
                if s["access"] == "public":
                    visit(s["name"])
            out.append(n)
        for n in sorted(names):
            visit(n)
        return out

    # ------------------------------------------------------------------ types
    def cxx_type(self, cls, t):
        """C++ spelling of a metatype type name as seen from class `cls`, or None if not modelled."""
        t = t.strip()
        if t.startswith("const ") and t.endswith("&"):
            t = t[6:-1].strip()
        if t in PRIMS:
            return PRIMS[t]
        if t.endswith("*"):
            b = t[:-1].strip()
            return (b + "*") if b in self.objects else None
        m = re.fullmatch(r"Q(?:List|Vector)<(.+)>", t)
        if m:
            inner = self.cxx_type(cls, m.group(1))
            return "QList<%s>" % inner if inner else None
        if t in GADGETS:
            return t
        res = self.cat.resolve_enum(cls, t)
        if res is not None:
            owner, e = res
            if owner in self.known or owner == "Qt":
                return "%s::%s" % (owner, e["name"])
        return None

    def is_const_ref(self, ct):
        return ct in ("QString", "QStringList", "QVariant") or ct.startswith("QList<") or ct in GADGETS

    def param(self, ct, name):
        return ("const %s &%s" % (ct, name)) if self.is_const_ref(ct) else "%s %s" % (ct, name)

    # ------------------------------------------------------------------ enums
    def enum_decls(self, cls):
        c = self.cat.by[cls]
        out = []
        used = set()
        enums = c.get("enums", [])
        plain = [e for e in enums if not (e.get("isFlag") and e.get("alias"))]
        for e in plain:
            vals = [v for v in e.get("values", []) if v not in used and re.fullmatch(r"[A-Za-z_]\w*", v)]
            used.update(vals)
            kw = "enum class" if e.get("isClass") else "enum"
            out.append("    %s %s { %s };" % (kw, e["name"], ", ".join("%s = %d" % (v, i) for i, v in enumerate(e.get("values", [])) if v in vals)))
        names = {e["name"] for e in plain}
        for e in enums:
            if e.get("isFlag") and e.get("alias"):
                if e["alias"] in names:
                    out.append("    typedef QFlags<%s> %s;" % (e["alias"], e["name"]))
                else:
                    vals = [v for v in e.get("values", []) if v not in used and re.fullmatch(r"[A-Za-z_]\w*", v)]
                    used.update(vals)
                    out.append("    enum %s { %s };" % (e["alias"], ", ".join("%s = %d" % (v, i) for i, v in enumerate(e.get("values", [])) if v in vals)))
                    out.append("    typedef QFlags<%s> %s;" % (e["alias"], e["name"]))
        return out

    # ------------------------------------------------------------------ classes
    def gadget_decl(self, cls):
        c = self.cat.by.get(cls, {"properties": []})
        lines = ["class %s%s {" % (cls, " : public QPaletteColorGroup" if cls == "QPalette" else ""), "public:"]
        lines += self.enum_decls(cls) if cls in self.cat.by else []
        members = []
        for p in c.get("properties", []):
            ct = self.cxx_type(cls, p["type"])
            if ct is None:
                continue
            nm = p["name"]
            members.append(nm)
            lines.append("    %s m_%s = %s();" % (ct, nm, ct))
            read = p.get("read") or nm
            write = p.get("write") or ("set" + catalog.cap(nm))
            lines.append("    %s %s() const { return m_%s; }" % (ct, read, nm))
            lines.append("    void %s(%s) { m_%s = v; }" % (write, self.param(ct, "v"), nm))
        eq = " && ".join("a.m_%s == b.m_%s" % (m, m) for m in members) or "true"
        if cls == "QPalette":
            eq = "(static_cast<const QPaletteColorGroup &>(a) == static_cast<const QPaletteColorGroup &>(b)) && " + eq
        lines.append("    friend bool operator==(const %s &a, const %s &b) { (void)a; (void)b; return %s; }" % (cls, cls, eq))
        lines.append("    friend bool operator!=(const %s &a, const %s &b) { return !(a == b); }" % (cls, cls))
        lines.append("};")
        lines.append("namespace qvm { template <> struct Show<%s> { static std::string of(const %s &) { return \"{\\\"gadget\\\":\\\"%s\\\"}\"; } }; }" % (cls, cls, cls))
        return lines

    def object_decl(self, cls):
        c = self.cat.by[cls]
        supers = [s["name"] for s in c.get("superClasses", []) if s["access"] == "public" and s["name"] in self.objects]
        if not supers and cls != "QObject":
            supers = [] if cls in ("QPaintDevice", "QLayoutItem") else []
        base = ", ".join("public " + s for s in supers)
        lines = ["class %s%s {" % (cls, (" : " + base) if base else ""), "public:"]
        lines += self.enum_decls(cls)
        props = {}
        write_funcs = {}
        for p in c.get("properties", []):
            ct = self.cxx_type(cls, p["type"])
            if ct is None:
                continue
            props[p["name"]] = (p, ct)
            if p.get("write"):
                write_funcs[p["write"]] = p["name"]
        # signals
        sig_decl = {}
        for m in c.get("signals", []):
            if m.get("access", "public") != "public":
                continue
            ats = [self.cxx_type(cls, a["type"]) for a in m.get("arguments", [])]
            if any(a is None for a in ats):
                continue
            key = (m["name"], tuple(ats))
            if key in sig_decl:
                continue
            sid = "%s::%s(%s)" % (cls, m["name"], ",".join(ats))
            params = ", ".join(self.param(a, "a%d" % i) for i, a in enumerate(ats))
            argl = "".join(", a%d" % i for i in range(len(ats)))
            lines.append("    void %s(%s) { QVM_SIGNAL(\"%s\"%s); }" % (m["name"], params, sid, argl))
            sig_decl[key] = sid
        # properties
        for nm, (p, ct) in props.items():
            init = " = nullptr" if ct.endswith("*") else " = %s()" % ct
            lines.append("    %s m_%s%s;" % (ct, nm, init))
            if p.get("read"):
                lines.append("    %s %s() const { if (qvm_log_reads()) qvm::log_read(this, \"%s\"); return m_%s; }" % (ct, p["read"], nm, nm))
            if p.get("write"):
                emits = []
                if p.get("notify"):
                    # every overload of the notify signal the model can construct: () and (T)
                    for (sn, ats), sid in self.all_signals(cls).items():
                        if sn != p["notify"]:
                            continue
                        if len(ats) == 0:
                            emits.append("%s();" % sn)
                        elif len(ats) == 1 and ats[0] == ct:
                            emits.append("%s(v);" % sn)
                lines.append("    void %s(%s) { qvm::log_write(this, \"%s\", v); if (m_%s == v) return; m_%s = v; %s }"
                             % (p["write"], self.param(ct, "v"), nm, nm, nm, " ".join(emits)))
        # slots and invokable methods (setters are already there)
        seen = set()
        for kind in ("slots", "methods"):
            for m in c.get(kind, []):
                if m.get("access", "public") != "public" or m["name"] in write_funcs:
                    continue
                ats = [self.cxx_type(cls, a["type"]) for a in m.get("arguments", [])]
                rt = m.get("returnType", "void")
                rct = "void" if rt == "void" else self.cxx_type(cls, rt)
                if any(a is None for a in ats) or rct is None:
                    continue
                key = (m["name"], tuple(ats))
                if key in seen or key in sig_decl:
                    continue
                if any(p.get("read") == m["name"] for p, _ in props.values()) and not ats:
                    continue
                seen.add(key)
                params = ", ".join(self.param(a, "a%d" % i) for i, a in enumerate(ats))
                argl = "".join(", a%d" % i for i in range(len(ats)))
                body = "qvm::log_call(this, \"%s\"%s);" % (m["name"], argl)
                if rct != "void":
                    if cls == "VfWidget" and m["name"] in VF_METHOD_BODIES:
                        body += " " + VF_METHOD_BODIES[m["name"]]
                    elif rct.endswith("*"):
                        body += " return nullptr;"
                    else:
                        body += " return %s();" % rct
                lines.append("    %s %s(%s) { %s }" % (rct, m["name"], params, body))
        if cls == "QObject":
            return None
        lines.append("};")
        return lines

    def all_signals(self, cls):
        """(name, arg types) -> id over cls and its modelled ancestors (own first)."""
        out = {}
        for c in self.cat.supers(cls):
            if c not in self.objects:
                continue
            for m in self.cat.by[c].get("signals", []):
                if m.get("access", "public") != "public":
                    continue
                ats = [self.cxx_type(c, a["type"]) for a in m.get("arguments", [])]
                if any(a is None for a in ats):
                    continue
                out.setdefault((m["name"], tuple(ats)), "%s::%s(%s)" % (c, m["name"], ",".join(ats)))
        return out

    def generate(self):
        L = ["// GENERATED by qv/cxxmodel.py from the type information qmluic loads. Do not edit.", "#pragma once",
             "#include \"qtmodel_rt.h\"", "inline bool &qvm_log_reads() { static bool b = false; return b; }", ""]
        for c in GADGETS + self.objects:
            if c != "QObject":
                L.append("class %s;" % c)
        L.append("")
        L.append("struct Qt {")
        L += self.enum_decls("Qt")
        L.append("};")
        # enums of gadget/object classes are needed by other classes' properties: classes are emitted in an order
        # where enum owners come first (gadgets, then objects in inheritance order)
        for c in GADGETS:
            L += self.gadget_decl(c)
        for c in self.objects:
            d = self.object_decl(c)
            if d:
                L += d
        L.append("")
        return "\n".join(L) + "\n"


QTDEBUG = r'''// <QtDebug> of the API model: only here are qDebug() & co. declared.
#pragma once
#include "qtmodel_rt.h"
class QDebug {
public:
    std::string level, items;
    bool first = true;
    explicit QDebug(const char *l) : level(l) {}
    QDebug(const QDebug &o) : level(o.level), items(o.items), first(o.first) { const_cast<QDebug &>(o).level.clear(); }
    ~QDebug() { if (!level.empty()) qvm::put("\"ev\":\"log\",\"level\":\"" + level + "\",\"items\":[" + items + "]"); }
    QDebug &noquote() { return *this; }
    template <class T> QDebug &operator<<(const T &v) { items += (first ? "" : ","); items += qvm::show(v); first = false; return *this; }
    QDebug &operator<<(const char *v) { items += (first ? "" : ","); items += qvm::jstr(v); first = false; return *this; }
};
inline QDebug qDebug() { return QDebug("debug"); }
inline QDebug qInfo() { return QDebug("info"); }
inline QDebug qWarning() { return QDebug("warning"); }
inline QDebug qCritical() { return QDebug("critical"); }
'''


def model_dir():
    return os.path.join(common.WORK, "cxxmodel")


def ensure_model():
    """Writes qtmodel headers into .work/cxxmodel (if changed) and returns the directory."""
    d = model_dir()
    os.makedirs(d, exist_ok=True)
    rt = open(os.path.join(common.ROOT, "cxx", "qtmodel_rt.h")).read()
    from . import exprdoc
    files = {"qtmodel_rt.h": rt, "qtmodel.h": ModelGen().generate(), "QtDebug": QTDEBUG, "vfstate.h": exprdoc.vfstate_header()}
    changed = False
    for n, content in files.items():
        p = os.path.join(d, n)
        if not os.path.exists(p) or open(p).read() != content:
            with open(p, "w") as f:
                f.write(content)
            changed = True
    return d, changed


# ---------------------------------------------------------------------------------------------
# mini-uic

class UicError(Exception):
    pass


def mini_uic(ui_text, header_name_guard="UI_H"):
    """.ui text -> ui_<name>.h content.  Raises UicError for duplicate members / unknown structure."""
    try:
        root = uiparse.parse(ui_text)
    except uiparse.UiSyntaxError as e:
        raise UicError("ill-formed .ui: %s" % e)
    cls = root.find("class").text
    w = root.find("widget")
    root_class = w.attrs["class"]
    customs = []
    cw = root.find("customwidgets")
    if cw is not None:
        for c in cw.findall("customwidget"):
            customs.append((c.find("class").text, c.find("extends").text))
    members = []
    for (tag, name, c, node) in uiparse.named_objects(root):
        if node is w:
            continue
        ctype = {"spacer": "QSpacerItem", "action": "QAction"}.get(tag, c)
        members.append((ctype, name))
    names = [n for _, n in members]
    dups = sorted({n for n in names if names.count(n) > 1})
    if dups:
        raise UicError("duplicate member names %r" % dups)
    L = ["#pragma once", "#include \"qtmodel.h\""]
    for (c, ext) in customs:
        L.append("class %s : public %s {};" % (c, ext))
    L += ["namespace Ui {", "class %s {" % cls, "public:"]
    for (ctype, name) in members:
        L.append("    %s *%s = nullptr;" % (ctype, name))
    # the parameter must not shadow a member (an object may well have the id `root`)
    L.append("    void setupUi(%s *qv_form_root_) {" % root_class)
    L.append("        qv_form_root_->setObjectName(\"%s\");" % w.attrs.get("name", "root"))
    cat = catalog.load()
    custom_base = dict(customs)
    for (ctype, name) in members:
        isobj = cat.is_a(custom_base.get(ctype, ctype), "QObject")
        L.append("        this->%s = new %s();%s" % (name, ctype, (" this->%s->setObjectName(\"%s\");" % (name, name)) if isobj else ""))
    L += ["    }", "};", "}", ""]
    return "\n".join(L), cls, root_class, members
