"""Type-directed generator of binding programs over the documented QML/JS subset, and the
reference interpreter (`evaluate`) that gives them their meaning under the documented semantics.

The abstract syntax is built first and printed afterwards; oracles work on the AST only.
"""
import math
import struct

from . import strings

BOOL, INT, UINT, DOUBLE, STR, MODE, PTR, SLIST, VOID = "bool", "int", "uint", "double", "QString", "mode", "ptr", "slist", "void"
VALUE_TYPES = [BOOL, INT, UINT, DOUBLE, STR, MODE, PTR, SLIST]
ANNOT = {BOOL: "bool", INT: "int", UINT: "uint", DOUBLE: "double", STR: "QString", MODE: "VfWidget.Mode", PTR: "VfWidget",
         SLIST: "QStringList"}
MODES = ["ModeA", "ModeB", "ModeC", "ModeD"]
VARIANT_KINDS = (BOOL, INT, UINT, DOUBLE, STR)   # what the QVariant-typed property `vval` may hold in a state: (kind, value)
INT_MIN, INT_MAX, UINT_MAX = -2 ** 31, 2 ** 31 - 1, 2 ** 32 - 1

# readable, notifying properties of VfWidget by type (see qv/vftypes.py)
VF_PROPS = {BOOL: ["bval", "bval2"], INT: ["ival", "ival2", "ival3", "x1"], UINT: ["uval", "uval2"], DOUBLE: ["dval", "dval2"],
            STR: ["sval", "sval2"], MODE: ["mode", "mode2"], PTR: ["peer", "peer2"], SLIST: ["slist"]}
# Qt classes: (class, property, type)
QT_PROPS = [("QSpinBox", "value", INT), ("QCheckBox", "checked", BOOL), ("QLineEdit", "text", STR),
            ("QComboBox", "currentIndex", INT), ("QSlider", "value", INT), ("QDoubleSpinBox", "value", DOUBLE)]
TARGET_PROP = {BOOL: "bval", INT: "ival", UINT: "uval", DOUBLE: "dval", STR: "sval", MODE: "mode", PTR: "peer", SLIST: "slist"}


class Undefined(Exception):
    """Evaluation is undefined under the documented semantics (overflow, /0, null deref, ...)."""


class N:
    """AST node."""
    __slots__ = ("k", "t", "a", "v", "const")

    def __init__(self, k, t, a=(), v=None, const=False):
        self.k, self.t, self.a, self.v, self.const = k, t, tuple(a), v, const

    def walk(self):
        yield self
        for x in self.a:
            if isinstance(x, N):
                yield from x.walk()
            elif isinstance(x, (list, tuple)):
                for y in x:
                    if isinstance(y, N):
                        yield from y.walk()
                    elif isinstance(y, (list, tuple)):
                        for z in y:
                            if isinstance(z, N):
                                yield from z.walk()


class ObjSpec:
    def __init__(self, oid, cls):
        self.id, self.cls = oid, cls

    def is_vf(self):
        return self.cls in ("VfWidget", "VfSub")


class Env:
    def __init__(self, objects, owner=None, owner_free=(), value_only=()):
        self.objects = objects          # readable source objects
        self.owner = owner              # ObjSpec of the binding's object (this) or None
        self.owner_free = owner_free    # property names of the owner that may be read (never binding targets)
        self.value_only = list(value_only)   # [(object id, property, type)] readable value properties of bound objects


# ---------------------------------------------------------------------------------------------
# generator

class Gen:
    def __init__(self, rng, env, profile="dynamic", max_depth=4, hostile_strings=False, features=None, allow_undefined_hazard=True):
        self.rng, self.env, self.profile, self.max_depth = rng, env, profile, max_depth
        self.hostile = hostile_strings
        self.features = features if features is not None else set()
        self.locals = []   # stack of dict name -> (type, const?)
        self.hidden = set()   # names that must not be referenced at this point (would be in their temporal dead zone)
        self.nlocal = 0
        self.hazard = allow_undefined_hazard
        self.minmax_literal_hazard = False
        self.inf_constant_hazard = False
        self.annotate_stringlist = False
        self.no_methods = False
        self.chain_bias = 0.0    # raises the share of pointer chains / conditional objects among object expressions
        self.chain_extra = 0
        self.no_state_methods = False   # methods whose result depends on object state (not observable by bindings)
        self.void_path_hazard = False
        self.has_void_path = False
        self.doc_casts = False   # `<object>.vval as T` (value stored in a QVariant) and `<expression> as void` statements

    # ---- helpers
    def feat(self, f):
        self.features.add(f)

    def vf_objects(self):
        return [o for o in self.env.objects if o.is_vf()]

    def lookup_locals(self, t, assignable=False):
        out = []
        seen = set()
        for scope in reversed(self.locals):
            for n, (lt, c) in scope.items():
                if n in seen:
                    continue
                seen.add(n)
                if n in self.hidden:
                    continue
                if lt == t and not (assignable and c):
                    out.append(n)
        return out

    # ---- literals
    def lit(self, t):
        rng = self.rng
        if t == BOOL:
            v = rng.random() < 0.5
            return N("lit", BOOL, v=v, const=True)
        if t == INT:
            v = rng.choice((0, 1, 2, 3, 5, 7, 10, 31, 32, 100, 255, 1000, 65535, 46340, 46341, INT_MAX, rng.randint(0, 50)))
            n = N("lit", INT, v=(v, self.int_spelling(v)), const=True)
            if rng.random() < 0.25:
                self.feat("neg-literal")
                return N("un", INT, (n,), v="-", const=True)
            return n
        if t == UINT:
            v = rng.choice((0, 1, 2, 7, 31, 100, 65535, rng.randint(0, 50)))
            return N("lit", UINT, v=(v, self.int_spelling(v)), const=True)
        if t == DOUBLE:
            v = rng.choice((0.0, 0.5, 1.0, 1.5, 2.0, 2.25, 10.0, 0.125, 100.0, 1e3, 3.75, 0.1, 1e-3, 123456.789))
            sp = rng.choice((repr(v), "%.3f" % v if v == round(v, 3) else repr(v), ("%e" % v) if v in (1e3, 1e-3) else repr(v)))
            if float(sp) != v:
                sp = repr(v)
            return N("lit", DOUBLE, v=(v, sp), const=True)
        if t == STR:
            s, pool = strings.pick_string(rng, self.hostile, False, False) if self.hostile else (rng.choice(
                ("", "a", "b", "ab", "abc", "x", "Hello", "%1", "é", "z", "A", "0", " ", "\U0001F600", "\ufffd", "\U00010000", "a b",
                 # escape followed by a character that could be absorbed into it by a C++ compiler
                 "\x011", "\x0012", "\x1f7z", "\n0", "\t7", "\x7f1", "7", "12", "\x01", "\x00", "\x1bf", "\x0cA", "é9", "\u200bB",
                 # beyond the BMP and not printable: tag characters, variation selectors, private-use planes, the last code point
                 "\U000E0067\U000E0062", "\U0001F3F4\U000E0067\U000E007F", "\U000E0100x", "\U000F0000", "a\U0010FFFFb", "\U0001D173")), "plain")
            return N("lit", STR, v=(s, strings.js_literal(rng, s)), const=True)
        if t == MODE:
            return N("enum", MODE, v=rng.choice(MODES), const=True)
        raise ValueError(t)

    def int_spelling(self, v):
        rng = self.rng
        r = rng.random()
        if r < 0.75 or v < 0:
            return str(v)
        if r < 0.85:
            self.feat("hex-literal")
            return rng.choice(("0x%x", "0X%X")) % v
        if r < 0.9:
            self.feat("bin-literal")
            return "0b" + bin(v)[2:]
        if r < 0.95:
            self.feat("oct-literal")
            return "0o" + oct(v)[2:]
        if v >= 1000:
            self.feat("sep-literal")
            s = str(v)
            return s[:-3] + "_" + s[-3:]
        return str(v)

    # ---- object expressions
    def obj_expr(self, depth, allow_chain=True):
        """Expression of type VfWidget* (statically typed as VfWidget or VfSub -> upcast only on assignment)."""
        rng = self.rng
        vfs = [o for o in self.env.objects if o.cls == "VfWidget"]
        loc = self.lookup_locals(PTR)
        r = rng.random()
        if loc and r < 0.25:
            self.feat("obj-via-local")
            return N("local", PTR, v=rng.choice(loc))
        if self.profile == "constant" or not allow_chain or depth >= self.max_depth + self.chain_extra or r < 0.55 - self.chain_bias or not vfs:
            if not vfs:
                raise ValueError("no VfWidget object in the environment")
            return N("obj", PTR, v=rng.choice(vfs).id, const=True)
        if r < 0.85:
            base = self.obj_expr(depth + 1)
            self.feat("ptr-chain")
            return N("prop", PTR, (base,), v=rng.choice(VF_PROPS[PTR]))
        if r < 0.95:
            self.feat("ptr-ternary")
            return N("tern", PTR, (self.expr(BOOL, depth + 1), self.obj_expr(depth + 1, False), self.obj_expr(depth + 1, False)))
        if self.no_methods or self.no_state_methods:
            return N("obj", PTR, v=rng.choice(vfs).id, const=True)
        self.feat("ptr-method")
        return N("call", PTR, (self.obj_expr(depth + 1, False),), v="other")

    def prop_read(self, t, depth):
        """Property read of type t, or None."""
        rng = self.rng
        if self.profile == "constant":
            return None
        cands = []
        if t in VF_PROPS and self.vf_objects():
            cands.append("vf")
        qt = [(o, p) for o in self.env.objects for (c, p, pt) in QT_PROPS if o.cls == c and pt == t]
        if qt:
            cands.append("qt")
        if self.env.owner is not None and any(pt == t for (_, pt) in self.env.owner_free):
            cands.append("this")
        vo = [(o, p) for (o, p, pt) in self.env.value_only if pt == t]
        if vo:
            cands += ["cascade", "cascade"]
        if not cands:
            return None
        w = rng.choice(cands)
        if w == "cascade":
            o, p = rng.choice(vo)
            self.feat("read-bound-property")
            return N("prop", t, (N("obj", PTR, v=o, const=True),), v=p)
        if w == "qt":
            o, p = rng.choice(qt)
            self.feat("read-qt")
            return N("prop", t, (N("obj", PTR, v=o.id, const=True),), v=p)
        if w == "this":
            p = rng.choice([pn for (pn, pt) in self.env.owner_free if pt == t])
            if rng.random() < 0.5:
                self.feat("read-this")
                return N("prop", t, (N("this", PTR),), v=p)
            self.feat("read-implicit-this")
            return N("implicit", t, v=p)
        subs = [o for o in self.env.objects if o.cls == "VfSub"]
        if subs and rng.random() < 0.15:
            # a derived-class object: usable as read base (its static type differs, so not in comparisons / ternaries)
            self.feat("read-derived")
            return N("prop", t, (N("obj", PTR, v=rng.choice(subs).id, const=True),), v=rng.choice(VF_PROPS[t]))
        base = self.obj_expr(depth + 1)
        return N("prop", t, (base,), v=rng.choice(VF_PROPS[t]))

    # ---- expressions
    def expr(self, t, depth=0):
        rng = self.rng
        if t == UINT and self.profile == "constant":
            t = INT   # an all-literal integer expression is untyped: there is no uint in the constant profile
        if depth >= self.max_depth:
            return self.atom(t, depth)
        prods = self.productions(t)
        name = rng.choice(prods)
        e = getattr(self, "p_" + name)(t, depth)
        e = e if e is not None else self.atom(t, depth)
        if t == DOUBLE and e.const and self.profile == "dynamic" and not self.inf_constant_hazard:
            # a constant that folds to inf/NaN is printed as `inf` / `NaN` into the header, which is not C++ (listed
            # finding of C16); the general workload keeps away from it
            try:
                val = Interp({}).ev(e)
                if math.isinf(val) or math.isnan(val):
                    e = self.lit(DOUBLE)
            except Undefined:
                e = self.lit(DOUBLE)
        if e.const and t in (INT, UINT):
            # constant sub-expressions are folded at translation time: one whose value is undefined (overflow, negative
            # shift count, division by zero) is rejected there, which tells nothing about run-time behaviour
            try:
                Interp({}).ev(e)
            except Undefined:
                e = self.lit(t)
        if t == UINT and self.profile == "dynamic" and uint_kind(e) != "concrete":
            # an all-literal integer expression has no concrete type of its own (it defaults to int unless the context
            # imposes uint); keep uint expressions anchored to something concretely typed
            e = self.prop_read(UINT, depth) or N("cast", UINT, (N("lit", INT, v=(7, "7"), const=True),), v=UINT)
        return e

    def atom(self, t, depth):
        rng = self.rng
        loc = self.lookup_locals(t)
        if loc and rng.random() < 0.4:
            self.feat("local-read")
            return N("local", t, v=rng.choice(loc))
        if t == PTR:
            return self.obj_expr(self.max_depth)
        if t == SLIST:
            e = self.prop_read(SLIST, depth) if rng.random() < 0.5 else None
            return e or self.p_listlit(t, self.max_depth)
        if rng.random() < (0.65 if self.profile == "dynamic" else 0.0):
            e = self.prop_read(t, depth)
            if e is not None:
                return e
        return self.lit(t)

    def productions(self, t):
        common = ["atom", "atom", "tern"]
        if self.doc_casts and self.profile == "dynamic" and t in VARIANT_KINDS and self.vf_objects():
            common = common + ["varcast"]
        if t == BOOL:
            return common + ["not", "and", "or", "cmp", "cmp", "cmp", "bbit", "isempty", "ptrcmp", "constcmp"] + \
                (["shiftsign"] if self.doc_casts and self.profile == "dynamic" else [])
        if t == INT:
            return common + ["arith", "arith", "arith", "bit", "shift", "neg", "minmax", "cast", "method", "constfold", "constfold"]
        if t == UINT:
            return common + ["arith", "bit", "shift", "minmax", "cast"]
        if t == DOUBLE:
            return common + ["arith", "arith", "neg", "minmax", "cast", "method"]
        if t == STR:
            return common + ["concat", "concat", "tr", "arg", "minmax", "subscript", "method"]
        if t == MODE:
            return common
        if t == PTR:
            return ["atom"]
        if t == SLIST:
            return ["atom", "listlit", "tern"]
        raise ValueError(t)

    def p_atom(self, t, depth):
        return self.atom(t, depth)

    def p_tern(self, t, depth):
        self.feat("ternary")
        c = self.expr(BOOL, depth + 1)
        a, b = self.expr(t, depth + 1), self.expr(t, depth + 1)
        if t == SLIST and a.k == "listlit" and not a.a[0] and b.k == "listlit" and not b.a[0]:
            return None   # two empty list literals have no concrete type
        if c.k == "tern":
            self.feat("ternary-in-condition")
        return N("tern", t, (c, a, b), const=c.const and a.const and b.const)

    def p_not(self, t, depth):
        e = self.expr(BOOL, depth + 1)
        return N("un", BOOL, (e,), v="!", const=e.const)

    def p_and(self, t, depth):
        self.feat("&&")
        a, b = self.expr(BOOL, depth + 1), self.expr(BOOL, depth + 1)
        return N("logic", BOOL, (a, b), v="&&", const=a.const and b.const)

    def p_or(self, t, depth):
        self.feat("||")
        a, b = self.expr(BOOL, depth + 1), self.expr(BOOL, depth + 1)
        return N("logic", BOOL, (a, b), v="||", const=a.const and b.const)

    def p_cmp(self, t, depth):
        rng = self.rng
        ot = rng.choice((INT, INT, UINT, DOUBLE, STR, STR, MODE, BOOL))
        if ot == UINT and self.profile == "constant":
            ot = INT
        op = rng.choice(("==", "!=", "<", "<=", ">", ">=", "===", "!=="))
        if ot in (MODE, BOOL) and op not in ("==", "!=", "===", "!=="):
            op = rng.choice(("==", "!="))
        a, b = self.expr(ot, depth + 1), self.expr(ot, depth + 1)
        self.feat("cmp:%s:%s" % (op, ot))
        return mk_cmp(op, a, b, const=a.const and b.const)

    def p_ptrcmp(self, t, depth):
        if self.profile == "constant":
            return None
        rng = self.rng
        a = self.obj_expr(depth + 1)
        op = rng.choice(("==", "!="))
        if rng.random() < 0.5:
            self.feat("cmp-null")
            b = N("null", PTR, const=True)
            if rng.random() < 0.3:
                a, b = b, a
        else:
            b = self.obj_expr(depth + 1)
        self.feat("cmp:%s:ptr" % op)
        return N("cmp", BOOL, (a, b), v=op)

    def p_bbit(self, t, depth):
        op = self.rng.choice(("&", "|", "^"))
        a, b = self.expr(BOOL, depth + 1), self.expr(BOOL, depth + 1)
        self.feat("bit:%s:bool" % op)
        return N("bin", BOOL, (a, b), v=op, const=a.const and b.const)

    def p_isempty(self, t, depth):
        if self.rng.random() < 0.7:
            e = self.expr(STR, depth + 1)
            if e.k == "lit":
                return None   # method call on a bare string literal is not in the documented subset
            self.feat("isEmpty:str")
        else:
            e = self.expr(SLIST, depth + 1)
            if e.k == "listlit" and not e.a[0]:
                return None
            self.feat("isEmpty:list")
        return N("call", BOOL, (e,), v="isEmpty")

    def p_arith(self, t, depth):
        rng = self.rng
        ops = ["+", "-", "*", "/", "%"]
        op = rng.choice(ops)
        a, b = self.expr(t, depth + 1), self.expr(t, depth + 1)
        if t == UINT and rng.random() < 0.35:
            # an untyped literal adopts the type of the other operand
            self.feat("uint-literal-adoption")
            if rng.random() < 0.5:
                b = self.lit(UINT)
            else:
                a = self.lit(UINT)
        self.feat("arith:%s:%s" % (op, t))
        return N("bin", t, (a, b), v=op, const=a.const and b.const)

    def p_bit(self, t, depth):
        op = self.rng.choice(("&", "|", "^", "~"))
        self.feat("bit:%s:%s" % (op, t))
        if op == "~":
            e = self.expr(t, depth + 1)
            return N("un", t, (e,), v="~", const=e.const)
        a, b = self.expr(t, depth + 1), self.expr(t, depth + 1)
        return N("bin", t, (a, b), v=op, const=a.const and b.const)

    def p_shift(self, t, depth):
        rng = self.rng
        op = rng.choice(("<<", ">>"))
        a = self.expr(t, depth + 1)
        if rng.random() < 0.6:
            n = rng.choice((0, 1, 2, 3, 4, 8, 16, 30, 31))
            b = N("lit", INT, v=(n, str(n)), const=True)
        else:
            b = self.expr(rng.choice((INT, UINT)) if self.profile != "constant" else INT, depth + 1)
        self.feat("shift:%s:%s" % (op, t))
        return N("bin", t, (a, b), v=op, const=a.const and b.const)

    def p_shiftsign(self, t, depth):
        """An integer literal shifted by a run-time uint amount stays an int: the sign of what follows shows it."""
        rng = self.rng
        u = self.prop_read(UINT, depth + 1)
        if u is None:
            return None
        if rng.random() < 0.5:
            sh = N("bin", INT, (self.int_lit(rng.choice((1, 1, 2, 3))), u), v="<<")
            e = N("bin", INT, (sh, self.int_lit(rng.choice((2, 5, 9)))), v="-")
        else:
            sh = N("bin", INT, (self.int_lit(rng.choice((-16, -1, -256))), u), v=">>")
            e = N("bin", INT, (sh, self.int_lit(2)), v=rng.choice(("/", "%", "-")))
        self.feat("shift:literal-by-uint")
        return mk_cmp(rng.choice(("<", ">=", "<=")), e, self.int_lit(0))

    def p_neg(self, t, depth):
        op = self.rng.choice(("-", "-", "+"))
        e = self.expr(t, depth + 1)
        self.feat("unary:%s:%s" % (op, t))
        return N("un", t, (e,), v=op, const=e.const)

    def p_minmax(self, t, depth):
        f = self.rng.choice(("max", "min"))
        a, b = self.expr(t, depth + 1), self.expr(t, depth + 1)
        if not self.minmax_literal_hazard:
            # a constant operand whose value is undefined in 32 bits makes the whole evaluation undefined
            if t == INT:
                for x in (a, b):
                    if x.const:
                        try:
                            Interp({}).ev(x)
                        except Undefined:
                            return None
        if t == INT and self.rng.random() < 0.1:
            # the smallest int, spelled as an expression (there is no literal for it): a constant like any other
            big = N("lit", INT, v=(INT_MAX, "2147483647"), const=True)
            one = N("lit", INT, v=(1, "1"), const=True)
            m = self.rng.choice((N("un", INT, (big,), v="~", const=True),
                                 N("bin", INT, (N("un", INT, (big,), v="-", const=True), one), v="-", const=True)))
            a, b = (m, b) if self.rng.random() < 0.5 else (a, m)
            self.feat("Math.%s:int-min" % f)
        self.feat("Math.%s:%s" % (f, t))
        return N("minmax", t, (a, b), v=f)

    def p_cast(self, t, depth):
        rng = self.rng
        srcs = {INT: [DOUBLE, UINT, BOOL, MODE], UINT: [INT, DOUBLE, BOOL], DOUBLE: [INT, UINT]}[t]
        if self.profile == "constant":
            srcs = [x for x in srcs if x != UINT]
        st = rng.choice(srcs)
        e = self.expr(st, depth + 1)
        if e.k in ("lit", "un") and e.const and st in (INT, UINT):
            # a bare integer literal has no concrete type yet; `1 as double` is fine, `1 as uint` is a no-op
            pass
        self.feat("cast:%s->%s" % (st, t))
        return N("cast", t, (e,), v=t)

    def p_varcast(self, t, depth):
        """`<object>.vval as T`: the value stored in the QVariant (defined when it holds a T)."""
        self.feat("cast:QVariant->%s" % t)
        return N("varcast", t, (self.obj_expr(depth + 1),), v=t)

    def p_method(self, t, depth):
        if self.profile == "constant" or not [o for o in self.env.objects if o.cls == "VfWidget"] or self.no_methods:
            return None
        rng = self.rng
        o = self.obj_expr(depth + 1)
        if t == INT:
            if rng.random() < 0.5:
                self.feat("method:twice")
                return N("call", INT, (o, self.expr(INT, depth + 1)), v="twice")
            self.feat("method:sum")
            return N("call", INT, (o, self.expr(INT, depth + 1), self.expr(INT, depth + 1)), v="sum")
        if t == DOUBLE:
            self.feat("method:half")
            return N("call", DOUBLE, (o, self.expr(DOUBLE, depth + 1)), v="half")
        if t == STR:
            self.feat("method:greet")
            return N("call", STR, (o, self.expr(STR, depth + 1)), v="greet")
        return None

    def p_concat(self, t, depth):
        a, b = self.expr(STR, depth + 1), self.expr(STR, depth + 1)
        self.feat("concat")
        if a.const and b.const:
            self.feat("concat-folded")
        return N("bin", STR, (a, b), v="+", const=a.const and b.const)

    def p_tr(self, t, depth):
        s = self.lit(STR)
        for _ in range(8):
            # the source text of qsTr() travels as a NUL-terminated C string in Qt (and in the QML engine):
            # text with an embedded U+0000 is outside what the API can carry and is not generated
            if "\x00" not in s.v[0]:
                break
            s = self.lit(STR)
        if "\x00" in s.v[0]:
            s = N("lit", STR, v=("a", '"a"'), const=True)
        self.feat("qsTr")
        return N("tr", STR, (s,))

    def p_arg(self, t, depth):
        rng = self.rng
        k = rng.choice((1, 1, 2, 3))
        nums = rng.sample(range(1, 10), k)
        parts = []
        for n in nums:
            parts.append(rng.choice(("", "x", " ", "v=", "%", "-")) + "%%%d" % n)
        fmt = "".join(parts) + rng.choice(("", "!", " end"))
        if rng.random() < 0.2:
            fmt += "%%%d" % nums[0]   # repeated marker: every occurrence is replaced
        base = N("lit", STR, v=(fmt, strings.js_literal(rng, fmt)), const=True)
        if rng.random() < 0.6:
            base = N("tr", STR, (base,))
        e = base
        for _ in range(k):
            at = rng.choice((INT, STR, UINT, STR))
            e = N("call", STR, (e, self.expr(at, depth + 1)), v="arg")
        self.feat("arg:%d" % k)
        return e

    def p_listlit(self, t, depth):
        rng = self.rng
        k = rng.choice((0, 1, 2, 3)) if depth < self.max_depth else rng.choice((1, 2))
        self.feat("listlit:%d" % k)
        elems = [self.expr(STR, depth + 1) for _ in range(k)]
        if self.profile == "constant" or all(e.const or (e.k == "tr" and all(isinstance(c, N) and c.const for c in e.a)) for e in elems):
            # (also in the dynamic profile, when every element happens to be a constant: the list may then be evaluated statically)
            # a constant string list is embedded as ONE <stringlist> that is translatable or not as a whole: qmluic rejects
            # a mix of bare and qsTr() elements by design ("cannot mix bare and translatable strings")
            def has_tr(n):
                if n.k == "tr":
                    return True
                return any(has_tr(c) for c in (n.a or ()) if isinstance(c, N)) or \
                    any(has_tr(c) for x in (n.a or ()) if isinstance(x, (list, tuple)) for c in x if isinstance(c, N))
            flags = [has_tr(e) for e in elems]
            if any(flags) and not all(flags):
                elems = [self.lit(STR) if f else e for e, f in zip(elems, flags)]
        return N("listlit", SLIST, (elems,))

    def p_subscript(self, t, depth):
        l = self.expr(SLIST, depth + 1)
        if l.k == "listlit" and not l.a[0]:
            return None
        i = self.expr(self.rng.choice((INT, INT, UINT)), depth + 1)
        self.feat("subscript")
        return N("index", STR, (l, i))

    def p_subscript_int(self, t, depth):
        return None

    # ---- forced constant-folding cells (operator x sign classes), filled round-robin
    FOLD_OPS = ["+", "-", "*", "/", "%", "&", "|", "^", "<<", ">>", "~", "neg"]
    SIGNS = [(1, 1), (-1, 1), (1, -1), (-1, -1)]

    def next_fold_cell(self):
        if not getattr(self, "_fold_cells", None):
            cells = [(op, sg) for op in self.FOLD_OPS for sg in self.SIGNS]
            self.rng.shuffle(cells)
            self._fold_cells = cells
        return self._fold_cells.pop()

    def int_lit(self, v):
        n = N("lit", INT, v=(abs(v), self.int_spelling(abs(v))), const=True)
        return N("un", INT, (n,), v="-", const=True) if v < 0 else n

    def p_constfold(self, t, depth):
        """A literal-only integer sub-expression: folded at translation time, must mean the same as at run time."""
        rng = self.rng
        op, (sa, sb) = self.next_fold_cell()
        a = sa * rng.choice((7, 10, 31, 100, 255, 1000, 46341))
        b = sb * rng.choice((2, 3, 7, 16, 1000))
        if op in ("<<", ">>"):
            a, b = abs(a) if op == "<<" else a, rng.choice((0, 1, 3, 8))
            if a < 0:
                a = -a   # shifting a negative value is not defined
        if op == "~":
            e = N("un", INT, (self.int_lit(a),), v="~", const=True)
        elif op == "neg":
            e = N("un", INT, (self.int_lit(a),), v="-", const=True)
        else:
            e = N("bin", INT, (self.int_lit(a), self.int_lit(b)), v=op, const=True)
        try:
            Interp({}).ev(e)
        except Undefined:
            return None
        self.feat("fold:%s:%s%s" % (op, "+" if sa > 0 else "-", "+" if sb > 0 else "-"))
        return e

    def p_constcmp(self, t, depth):
        """Comparison of two constants (folded): integers of either sign, doubles, strings incl. astral vs BMP-high."""
        rng = self.rng
        op = rng.choice(("==", "!=", "<", "<=", ">", ">="))
        r = rng.random()
        if r < 0.4:
            a, b = self.p_constfold(INT, depth), self.p_constfold(INT, depth)
            if a is None or b is None:
                return None
            ot = "int"
        elif r < 0.6:
            a, b = self.lit(DOUBLE), self.lit(DOUBLE)
            ot = "double"
        else:
            pool = ["a", "b", "ab", "", "A", "\u00e9", "z", "\ufffd", "\U00010000", "\U0001F600", "\uff5e", "a\U00010000", "a\ufffd"]
            sa, sb = rng.choice(pool), rng.choice(pool)
            a = N("lit", STR, v=(sa, strings.js_literal(rng, sa)), const=True)
            b = N("lit", STR, v=(sb, strings.js_literal(rng, sb)), const=True)
            ot = "str-astral" if (max(map(ord, sa or "a")) > 0xffff) != (max(map(ord, sb or "a")) > 0xffff) else "str"
        self.feat("foldcmp:%s:%s" % (op if ot != "str-astral" else "ord", ot))
        return mk_cmp(op, a, b, const=True)

    # ---- statements (value programs: every path yields a value)
    def program(self, t, kind=None):
        """-> N('prog', t, (stmts,)) or a bare expression node."""
        rng = self.rng
        kind = kind or rng.choice(("expr", "expr", "block", "block", "ifelse", "switch", "early-return"))
        self.locals = [{}]
        self.nlocal = 0
        if kind == "expr":
            return self.expr(t)
        self.feat("program:" + kind)
        if kind == "repoint-local":
            # one straight-line block reading the SAME property through a pointer variable before and after the variable
            # is re-assigned to another dynamically chosen object
            pt = t if t in (INT, STR, BOOL, DOUBLE, UINT, MODE) else INT
            p = self.rng.choice(VF_PROPS[pt])
            w, x = self.fresh(), self.fresh()
            first = N("prop", PTR, (self.obj_expr(self.max_depth),), v=self.rng.choice(VF_PROPS[PTR]))
            self.locals[-1][w] = (PTR, False)
            second = N("prop", PTR, (self.obj_expr(self.max_depth),), v=self.rng.choice(VF_PROPS[PTR]))
            stmts = [N("let", VOID, (first,), v=(w, PTR, False, True)),
                     N("let", VOID, (N("prop", pt, (N("local", PTR, v=w),), v=p),), v=(x, pt, False, False)),
                     N("assign", VOID, (second,), v=w)]
            self.locals[-1][x] = (pt, True)
            y = N("prop", pt, (N("local", PTR, v=w),), v=p)
            xl = N("local", pt, v=x)
            if t == pt and pt in (INT,):
                res = N("minmax", INT, (xl, y), v="max")
            elif t == pt and pt == STR:
                res = N("bin", STR, (xl, y), v="+")
            elif t == pt and pt == BOOL:
                res = N("bin", BOOL, (xl, y), v="^")
            elif t == BOOL:
                res = mk_cmp("==", xl, y)
            elif t == pt:
                res = N("tern", t, (mk_cmp("==", xl, y), xl, y))
            else:
                stmts.append(N("let", VOID, (mk_cmp("!=", xl, y),), v=(self.fresh(), BOOL, True, False)))
                self.locals[-1]["v%d" % self.nlocal] = (BOOL, True)
                return N("prog", t, (stmts + self.tail(t, "block", 0),))
            return N("prog", t, (stmts + [N("return", t, (res,))],))
        if kind == "const-alias":
            # a const initialised from a bare variable is a copy: re-assigning the variable afterwards must not show through it
            pt = t if t in (INT, STR, BOOL, DOUBLE, UINT, SLIST) else INT
            a, k = self.fresh(), self.fresh()
            stmts = [N("let", VOID, (self.expr(pt, 2),), v=(a, pt, False, False))]
            self.locals[-1][a] = (pt, False)
            stmts.append(N("let", VOID, (N("local", pt, v=a),), v=(k, pt, True, rng.random() < 0.3 and (pt != SLIST or self.annotate_stringlist))))
            if pt == SLIST and rng.random() < 0.6:
                stmts.append(N("setelem", VOID, (N("lit", INT, v=(0, "0"), const=True), self.expr(STR, 2)), v=a))
            else:
                stmts.append(N("assign", VOID, (self.expr(pt, 2),), v=a))
            self.locals[-1][k] = (pt, True)
            al, kl = N("local", pt, v=a), N("local", pt, v=k)
            if t == BOOL and pt == BOOL:
                res = N("bin", BOOL, (kl, al), v="^")
            elif t == BOOL:
                res = mk_cmp("==", kl, al)
            elif t == pt and pt in (INT, UINT, DOUBLE):
                res = N("bin", pt, (N("minmax", pt, (kl, al), v="max"), N("minmax", pt, (kl, al), v="min")), v="-")
            elif t == pt and pt == STR:
                res = N("bin", STR, (N("bin", STR, (kl, N("lit", STR, v=("|", '"|"'), const=True)), v="+"), al), v="+")
            elif t == pt and pt == SLIST:
                res = N("tern", SLIST, (mk_cmp("==", kl, al), al, kl)) if False else kl
            else:
                stmts.append(N("let", VOID, (mk_cmp("!=", kl, al),), v=(self.fresh(), BOOL, True, False)))
                self.locals[-1]["v%d" % self.nlocal] = (BOOL, True)
                return N("prog", t, (stmts + self.tail(t, "block", 0),))
            return N("prog", t, (stmts + [N("return", t, (res,))],))
        if kind == "switch-fallthrough-let":
            # a variable re-declared in one clause of a switch and READ IN A LATER CLAUSE that is reached by falling through:
            # the later clause denotes the switch-level variable, the code after the switch the outer one
            name = self.fresh()
            outer = N("let", VOID, (self.expr(t, 2),), v=(name, t, False, False))     # (its initialiser cannot read the name)
            self.locals[-1][name] = (t, False)
            subject = N("bin", INT, (N("prop", INT, (self.obj_expr(self.max_depth),), v=rng.choice(VF_PROPS[INT])), N("lit", INT, v=(2, "2"), const=True)), v="%")
            self.hidden.add(name)
            inner_init = self.expr(t, 2)
            self.hidden.discard(name)
            loc = N("local", t, v=name)
            c1 = [N("let", VOID, (inner_init,), v=(name, t, False, False))]
            if rng.random() < 0.4:
                c1.append(N("exprstmt", t, (self.lit(t),)))
            c2 = [N("return", t, (loc,))]
            labels = [N("lit", INT, v=(0, "0"), const=True), N("lit", INT, v=(1, "1"), const=True)]
            dpos = rng.choice((None, 2, 0))
            bodies = [c1, c2] if dpos is None else ([c1, c2, [N("break", VOID)]] if dpos == 2 else [[N("break", VOID)], c1, c2])
            return N("prog", t, ([outer, N("switch", VOID, (subject, labels, dpos, bodies)), N("return", t, (loc,))],))
        if kind == "list-build":
            # a list-valued local starts as a CONSTANT list and receives a non-constant element by subscript assignment; the
            # result depends on that element only (everything else in the program is constant)
            k = rng.randint(1, 3)
            p = self.fresh()
            self.locals[-1][p] = (SLIST, False)
            stmts = [N("let", VOID, (N("listlit", SLIST, ([self.lit(STR) for _ in range(k)],)),), v=(p, SLIST, False, False))]
            i = rng.randrange(k)
            dyn = N("prop", STR, (self.obj_expr(self.max_depth),), v=rng.choice(VF_PROPS[STR]))
            stmts.append(N("setelem", VOID, (N("lit", INT, v=(i, str(i)), const=True), dyn), v=p))
            if rng.random() < 0.3 and k > 1:
                j = rng.choice([x for x in range(k) if x != i])
                stmts.append(N("setelem", VOID, (N("lit", INT, v=(j, str(j)), const=True), self.lit(STR)), v=p))
            pl = N("local", SLIST, v=p)
            at = lambda n: N("index", STR, (pl, N("lit", INT, v=(n, str(n)), const=True)))
            if t == SLIST:
                res = pl
            elif t == STR:
                res = at(i) if k == 1 else N("bin", STR, (at(i), at((i + 1) % k)), v="+")
            elif t == BOOL:
                res = mk_cmp("==", at(i), self.lit(STR))
            else:
                return N("prog", t, (stmts + self.tail(t, "block", 0),))
            return N("prog", t, (stmts + [N("return", t, (res,))],))
        stmts = self.prelude()
        stmts += self.tail(t, kind, 0)
        return N("prog", t, (stmts,))

    def fresh(self):
        self.nlocal += 1
        return "v%d" % self.nlocal

    def prelude(self, depth=0):
        """Declarations / assignments / conditional assignments that do not end the program."""
        rng = self.rng
        out = []
        for _ in range(rng.choice((0, 1, 1, 2, 3))):
            if self.doc_casts and rng.random() < 0.08:
                # `<expression> as void`: evaluated, result discarded
                dt = rng.choice((INT, BOOL, STR, DOUBLE, UINT, MODE, SLIST))
                e = self.expr(dt, 2)
                if not (e.k == "listlit" and not e.a[0]):   # (an untyped `[]` has nothing to be cast from: rejected)
                    out.append(N("discard", VOID, (e,)))
                    self.feat("discard-as-void")
                continue
            r = rng.random()
            if r < 0.55:
                lt = rng.choice((INT, INT, BOOL, STR, DOUBLE, UINT, MODE, PTR, SLIST))
                if lt == UINT and self.profile == "constant":
                    lt = INT
                name = self.fresh()
                shadow = False
                if rng.random() < 0.15:
                    outer = [n for sc in self.locals[:-1] for n in sc if n not in self.hidden and n not in self.locals[-1]]
                    if outer:
                        name = rng.choice(outer)   # shadows a variable of an enclosing block
                        shadow = True
                # the initialiser must not read the name being declared (temporal dead zone)
                self.hidden.add(name)
                init = self.expr(lt, 2) if lt != PTR else self.obj_expr(2)
                self.hidden.discard(name)
                if lt == SLIST and init.k == "listlit" and not init.a[0]:
                    continue
                if shadow:
                    self.feat("shadow")
                const = rng.random() < 0.3
                # `let v = 1` makes an int: a literal-only uint initialiser needs the annotation; so do object types
                annotated = (rng.random() < 0.3 or (lt == UINT and init.const) or lt == PTR) and \
                    (lt != SLIST or self.annotate_stringlist)
                out.append(N("let", VOID, (init,), v=(name, lt, const, annotated)))
                self.locals[-1][name] = (lt, const)
                self.feat("const" if const else "let")
            elif r < 0.75:
                # assignment to a visible let
                cands = [(n, lt) for lt in VALUE_TYPES for n in self.lookup_locals(lt, assignable=True)]
                if not cands:
                    continue
                n, lt = rng.choice(cands)
                if lt == SLIST and self.profile == "dynamic" and rng.random() < 0.5:
                    # element assignment on a list-valued local (a copy: the source list is not touched); out of range = undefined
                    i = rng.choice((0, 0, 1, 2))
                    out.append(N("setelem", VOID, (N("lit", INT, v=(i, str(i)), const=True), self.expr(STR, 2)), v=n))
                    self.feat("list-element-assign")
                    continue
                rhs = self.expr(lt, 2) if lt != PTR else self.obj_expr(2)
                if lt == SLIST and rhs.k == "listlit" and not rhs.a[0]:
                    continue
                out.append(N("assign", VOID, (rhs,), v=n))
                self.feat("assign")
            elif r < 0.83 and depth < 2:
                # switch whose every clause (default included) assigns and leaves by `break`: the code after it is
                # reachable through `break` edges only
                cands = [(n, lt) for lt in VALUE_TYPES for n in self.lookup_locals(lt, assignable=True)]
                if not cands:
                    continue
                n, lt = rng.choice(cands)
                st = rng.choice((INT, STR, MODE))
                subject = self.expr(st, 2)
                ncase = rng.randint(1, 3)
                labels = [self.lit(st) for _ in range(ncase)]
                dpos = rng.randint(0, ncase)
                bodies = []
                self.locals.append({})
                for _ in range(ncase + 1):
                    rhs = self.expr(lt, 2) if lt != PTR else self.obj_expr(2)
                    if lt == SLIST and rhs.k == "listlit" and not rhs.a[0]:
                        rhs = self.p_listlit(SLIST, self.max_depth)
                        if not rhs.a[0]:
                            rhs = N("listlit", SLIST, ([self.lit(STR)],))
                    bodies.append([N("assign", VOID, (rhs,), v=n), N("break", VOID)])
                self.locals.pop()
                out.append(N("switch", VOID, (subject, labels, dpos, bodies)))
                self.feat("switch-assign-all-break")
            elif depth < 2:
                # conditional assignment in a nested block (with its own scope)
                if not [1 for lt in VALUE_TYPES for n in self.lookup_locals(lt, assignable=True)]:
                    continue
                c = self.expr(BOOL, 2)
                self.locals.append({})
                then = self.prelude(depth + 1)
                cands = [(n, lt) for lt in VALUE_TYPES for n in self.lookup_locals(lt, assignable=True)]
                if cands:
                    n, lt = rng.choice(cands)
                    rhs = self.expr(lt, 2) if lt != PTR else self.obj_expr(2)
                    if not (lt == SLIST and rhs.k == "listlit" and not rhs.a[0]):
                        then.append(N("assign", VOID, (rhs,), v=n))
                self.locals.pop()
                els = None
                if rng.random() < 0.4:
                    self.locals.append({})
                    els = self.prelude(depth + 1)
                    self.locals.pop()
                out.append(N("if", VOID, (c, then, els)))
                self.feat("if-assign" + ("-else" if els is not None else ""))
        return out

    def tail(self, t, kind, depth):
        """Statements after which every path has produced a value of type t."""
        rng = self.rng
        if self.void_path_hazard and rng.random() < 0.12:
            # ILL-TYPED on purpose: this path ends without a value (must be rejected; if it is accepted anyway the
            # monitors see a value function with a reachable void return)
            self.feat("hazard:void-path")
            self.has_void_path = True
            r = rng.random()
            if r < 0.4:
                return []
            if r < 0.7:
                lt = rng.choice((INT, BOOL))
                return [N("let", VOID, (self.expr(lt, 2),), v=(self.fresh(), lt, False, False))]
            c = self.expr(BOOL, 2)
            return [N("if", VOID, (c, [N("exprstmt", t, (self.expr(t, 2),))], None))]
        if depth >= 2 or kind == "block":
            if rng.random() < 0.5:
                self.feat("completion-value")
                return [N("exprstmt", t, (self.expr(t, 1),))]
            self.feat("return")
            return [N("return", t, (self.expr(t, 1),))]
        if kind == "early-return":
            self.feat("early-return")
            c = self.expr(BOOL, 2)
            self.locals.append({})
            then = self.prelude(depth + 1) + [N("return", t, (self.expr(t, 2),))]
            self.locals.pop()
            return [N("if", VOID, (c, then, None))] + self.prelude(depth + 1) + self.tail(t, rng.choice(("block", "ifelse", "switch")), depth + 1)
        if kind == "ifelse":
            c = self.expr(BOOL, 2)
            sub = lambda: rng.choice(("block", "block", "ifelse", "switch"))
            self.locals.append({})
            then = self.prelude(depth + 1) + self.tail(t, sub(), depth + 1)
            self.locals.pop()
            self.locals.append({})
            els = self.prelude(depth + 1) + self.tail(t, sub(), depth + 1)
            self.locals.pop()
            self.feat("if-else-value")
            return [N("if", VOID, (c, then, els))]
        if kind == "switch":
            return self.switch_tail(t, depth)
        raise ValueError(kind)

    def switch_tail(self, t, depth):
        rng = self.rng
        st = rng.choice((INT, INT, STR, MODE, UINT))
        if st == UINT and self.profile == "constant":
            st = INT
        subject = self.expr(st, 2)
        ncase = rng.randint(1, 4)
        labels = []
        for _ in range(ncase):
            r = rng.random()
            if r < 0.65:
                lab = self.lit(st)
            elif r < 0.8:
                lab = self.expr(st, 3)
            else:
                # a label whose evaluation spans several basic blocks
                self.feat("switch:label-with-branch")
                lab = N("tern", st, (self.expr(BOOL, 2), self.expr(st, 3), self.expr(st, 3)))
                if uint_kind(lab) != "concrete" and st == UINT:
                    lab = self.lit(st)
            labels.append(lab)
        has_default = rng.random() < 0.8
        dpos = rng.randint(0, ncase) if has_default else None
        if has_default:
            self.feat("switch:default-" + ("first" if dpos == 0 else "last" if dpos == ncase else "middle"))
        else:
            self.feat("switch:no-default")
        bodies = []
        nbodies = ncase + (1 if has_default else 0)
        self.locals.append({})   # a switch body is ONE block (as in JS and C++)
        declared_here = []
        for i in range(nbodies):
            last = (i == nbodies - 1)
            r = rng.random()
            before = set(self.locals[-1])
            if r < 0.15 and not last:
                self.feat("switch:empty-fallthrough")
                bodies.append(("fall", []))
                continue
            body = self.case_prelude()
            if r < 0.3 and not last:
                self.feat("switch:fallthrough")
                kind = "fall"
            elif r < 0.65:
                self.feat("switch:return")
                body.append(N("return", t, (self.expr(t, 2),)))
                kind = "return"
            elif r < 0.85:
                self.feat("switch:value-break")
                body.append(N("exprstmt", t, (self.expr(t, 2),)))
                body.append(N("break", VOID))
                kind = "break"
            else:
                self.feat("switch:break-under-if")
                c = self.expr(BOOL, 3)
                body.append(N("if", VOID, (c, [N("exprstmt", t, (self.expr(t, 2),)), N("break", VOID)], None)))
                body.append(N("return", t, (self.expr(t, 2),)))
                kind = "return"
            bodies.append((kind, body))
            # names declared by this clause are in their temporal dead zone for the clauses entered directly later on
            new_names = set(self.locals[-1]) - before
            declared_here += list(new_names)
            self.hidden |= new_names
        self.locals.pop()
        self.hidden -= set(declared_here)
        out = [N("switch", VOID, (subject, labels, dpos, [b for _, b in bodies]))]
        if self.void_path_hazard and has_default and any(k == "break" for k, _ in bodies) and rng.random() < 0.3:
            # ILL-TYPED on purpose: code reachable only through `break` that ends without a value
            self.feat("hazard:void-after-break")
            self.has_void_path = True
            out.append(N("let", VOID, (self.expr(INT, 2),), v=(self.fresh(), INT, False, False)))
            return out
        if not has_default:
            # the no-match path leaves the switch without a value: code that yields one must follow
            out.append(N("return", t, (self.expr(t, 2),)) if rng.random() < 0.5 else N("exprstmt", t, (self.expr(t, 2),)))
        return out

    def case_prelude(self):
        rng = self.rng
        out = []
        if rng.random() < 0.25:
            # declaration inside a case clause: scoped to the switch body, may shadow an outer variable
            lt = rng.choice((INT, STR, BOOL))
            name = self.fresh()
            outer = [n for sc in self.locals[:-1] for n in sc if n not in self.hidden and n not in self.locals[-1]]
            if outer and rng.random() < 0.5:
                name = rng.choice(outer)
                self.feat("switch:let-shadows-outer")
            else:
                self.feat("switch:let-in-case")
            self.hidden.add(name)
            init = self.expr(lt, 3)
            self.hidden.discard(name)
            out.append(N("let", VOID, (init,), v=(name, lt, False, rng.random() < 0.3)))
            self.locals[-1][name] = (lt, False)
        if rng.random() < 0.35:
            cands = [(n, lt) for lt in VALUE_TYPES for n in self.lookup_locals(lt, assignable=True)]
            if cands:
                n, lt = rng.choice(cands)
                rhs = self.expr(lt, 3) if lt != PTR else self.obj_expr(3)
                if not (lt == SLIST and rhs.k == "listlit" and not rhs.a[0]):
                    out.append(N("assign", VOID, (rhs,), v=n))
        return out


# ---------------------------------------------------------------------------------------------
# void programs (signal callbacks): statements with side effects

WRITABLE = {BOOL: ["bval", "bval2"], INT: ["ival", "ival2", "ival3"], UINT: ["uval", "uval2"], DOUBLE: ["dval", "dval2"],
            STR: ["sval", "sval2"], MODE: ["mode", "mode2"], PTR: ["peer", "peer2"], SLIST: ["slist"]}
VOID_SLOTS = [("doIt", ()), ("take", (INT,)), ("take2", (INT, STR)), ("takeS", (STR,)), ("takeB", (BOOL,)), ("takeD", (DOUBLE,)),
              ("takeU", (UINT,)), ("takeMode", (MODE,))]
LOG_LEVELS = ["log", "debug", "info", "warn", "error"]


class VoidGen(Gen):
    """Generates callback bodies: every statement form, in any nesting, no value required on any path."""

    def effect(self, depth=2):
        rng = self.rng
        r = rng.random()
        tgt = self.obj_expr(depth)
        if r < 0.4:
            t = rng.choice(list(WRITABLE))
            rhs = self.expr(t, depth) if t != PTR else (self.obj_expr(depth) if rng.random() < 0.8 else N("null", PTR, const=True))
            if t == SLIST and rhs.k == "listlit" and not rhs.a[0] and rng.random() < 0.5:
                rhs = self.p_listlit(SLIST, self.max_depth)
            self.feat("effect:write:" + t)
            return N("setprop", VOID, (tgt, rhs), v=rng.choice(WRITABLE[t]))
        if r < 0.75:
            name, ats = rng.choice(VOID_SLOTS)
            self.feat("effect:call:" + name)
            return N("docall", VOID, (tgt,) + tuple(self.expr(t, depth) for t in ats), v=name)
        k = rng.choice((0, 1, 1, 2, 3))
        lv = rng.choice(LOG_LEVELS)
        self.feat("effect:console." + lv)
        args = []
        for _ in range(k):
            t = rng.choice((INT, STR, BOOL, DOUBLE, UINT))
            e = self.expr(t, depth)
            if e.const and t in (INT, UINT) and (e.k != "lit" or t == UINT):
                e = self.lit(INT)   # an untyped constant is an int here: no context imposes uint
            args.append(e)
        return N("log", VOID, tuple(args), v=lv)

    def value_call(self, depth=2):
        """One call of a value-returning method: (node, type)."""
        rng = self.rng
        o = self.obj_expr(depth)
        name, rt, ats = rng.choice((("twice", INT, (INT,)), ("sum", INT, (INT, INT)), ("greet", STR, (STR,)), ("test", BOOL, (INT, INT)),
                                    ("half", DOUBLE, (DOUBLE,))))
        return N("call", rt, (o,) + tuple(self.expr(t, depth) for t in ats), v=name), rt

    def call_stmt(self):
        """Statement whose only side effect is one value-returning method call: in a declaration, an assignment or bare."""
        rng = self.rng
        call, rt = self.value_call()
        r = rng.random()
        if r < 0.5:
            name = self.fresh()
            const = rng.random() < 0.4
            self.locals[-1][name] = (rt, const)
            self.feat("effect:let-call")
            return N("let", VOID, (call,), v=(name, rt, const, rng.random() < 0.3))
        cands = self.lookup_locals(rt, assignable=True)
        if cands and r < 0.75:
            self.feat("effect:assign-call")
            return N("assign", VOID, (call,), v=rng.choice(cands))
        self.feat("effect:bare-call")
        return N("exprstmt", rt, (call,))

    def body(self, params=()):
        """-> list of statements.  params: [(name, type)] bound by the caller."""
        self.no_methods = True   # calls appear at statement level only, one per statement: their order is observable
        self.locals = [dict((n, (t, False)) for n, t in params)]
        self.hidden = set()
        self.nlocal = 0
        out = self.stmts(0, top=True)
        if self.rng.random() < 0.2 and not any(s.k == "return" for s in out):
            out += self.shadow_in_switch_then_use()
        return out

    def shadow_in_switch_then_use(self):
        """A variable (handler parameter or let) that a case clause of a switch re-declares, read AFTER the switch: the
        declaration is scoped to the switch body, so the read denotes the outer variable."""
        rng = self.rng
        outer = [(n, lt) for n, (lt, c) in self.locals[0].items() if lt in (INT, STR, BOOL) and n not in self.hidden]
        out = []
        if outer and rng.random() < 0.7:
            name, lt = rng.choice(outer)
        else:
            lt = rng.choice((INT, STR, BOOL))
            name = self.fresh()
            out.append(N("let", VOID, (self.expr(lt, 2),), v=(name, lt, False, False)))
            self.locals[0][name] = (lt, False)
        st = rng.choice((INT, BOOL, MODE))
        subject = self.expr(st, 2)
        self.hidden.add(name)
        inner_init = self.expr(lt, 2)          # must not read the name being declared
        self.hidden.discard(name)
        clause = [N("let", VOID, (inner_init,), v=(name, lt, False, False)),
                  N("log", VOID, (N("local", lt, v=name),), v=rng.choice(LOG_LEVELS))]
        if rng.random() < 0.6:
            clause.append(N("break", VOID))
        labels = [self.lit(st)]
        dpos = rng.choice((None, 0, 1))
        bodies = [clause] if dpos is None else ([[], clause] if dpos == 0 else [clause, []])
        out.append(N("switch", VOID, (subject, labels, dpos, bodies)))
        out.append(N("log", VOID, (N("local", lt, v=name),), v=rng.choice(LOG_LEVELS)))
        self.feat("void:shadow-in-switch-then-use")
        return out

    def stmts(self, depth, top=False, in_switch=False):
        rng = self.rng
        out = []
        n = rng.choice((1, 2, 2, 3, 4)) if depth < 2 else rng.choice((0, 1, 2))
        for i in range(n):
            r = rng.random()
            if r < 0.32 or depth >= 3:
                out.append(self.effect())
            elif r < 0.42:
                out.append(self.call_stmt())
            elif r < 0.55:
                out += self.prelude(depth + 1)
            elif r < 0.72:
                c = self.expr(BOOL, 2)
                self.locals.append({})
                then = self.stmts(depth + 1, in_switch=in_switch)
                self.locals.pop()
                els = None
                if rng.random() < 0.5:
                    self.locals.append({})
                    els = self.stmts(depth + 1, in_switch=in_switch)
                    self.locals.pop()
                self.feat("void:if" + ("-else" if els is not None else ""))
                out.append(N("if", VOID, (c, then, els)))
            elif r < 0.85 and depth < 2:
                out.append(self.void_switch(depth))
            elif r < 0.9:
                self.feat("void:return")
                out.append(N("return", VOID))
                if rng.random() < 0.5:
                    break   # otherwise: code after return (dead)
                self.feat("void:dead-code-after-return")
            elif r < 0.94 and in_switch:
                self.feat("void:break")
                out.append(N("break", VOID))
                if rng.random() < 0.5:
                    break
                self.feat("void:dead-code-after-break")
            else:
                self.locals.append({})
                inner = self.stmts(depth + 1, in_switch=in_switch)
                self.locals.pop()
                self.feat("void:block")
                out.append(N("block", VOID, (inner,)))
        if rng.random() < 0.12:
            # ... or in a declaration whose initialiser has a side effect
            out.append(self.call_stmt())
            if out[-1].k == "let":
                self.feat("void:ends-in-declaration-with-call")
        elif rng.random() < 0.25:
            # a block that ends in a declaration (its last block has statements but no completion value)
            lt = rng.choice((INT, BOOL, STR))
            init = N("tern", lt, (self.expr(BOOL, 2), self.expr(lt, 3), self.expr(lt, 3))) if rng.random() < 0.6 else self.expr(lt, 2)
            name = self.fresh()
            out.append(N("let", VOID, (init,), v=(name, lt, False, False)))
            self.locals[-1][name] = (lt, False)
            self.feat("void:ends-in-declaration")
        return out

    def void_switch(self, depth):
        rng = self.rng
        st = rng.choice((INT, STR, MODE, BOOL))
        subject = self.expr(st, 2)
        ncase = rng.randint(0, 3)
        labels = [self.lit(st) if rng.random() < 0.8 else self.expr(st, 3) for _ in range(ncase)]
        has_default = rng.random() < 0.6 or ncase == 0
        dpos = rng.randint(0, ncase) if has_default else None
        self.feat("void:switch:%s" % ("no-default" if dpos is None else "default-first" if dpos == 0 else "default-last" if dpos == ncase else "default-middle"))
        bodies = []
        self.locals.append({})
        declared = []
        for i in range(ncase + (1 if has_default else 0)):
            before = set(self.locals[-1])
            body = self.case_prelude() + self.stmts(depth + 1, in_switch=True) if rng.random() < 0.85 else []
            if body and rng.random() < 0.6 and body[-1].k not in ("break", "return"):
                body.append(N("break", VOID))
            bodies.append(body)
            new_names = set(self.locals[-1]) - before
            declared += list(new_names)
            self.hidden |= new_names
        self.locals.pop()
        self.hidden -= set(declared)
        return N("switch", VOID, (subject, labels, dpos, bodies))


def uint_kind(e):
    """How qmluic types an integer expression the generator labelled uint: concrete (uint), untyped (a constant that
    adopts the type of the context) or int (an untyped constant that was given the default type on its way)."""
    if e.const:
        return "untyped"
    k = e.k
    if k in ("prop", "implicit", "local", "cast", "call", "index"):
        return "concrete"
    if k == "un":
        return uint_kind(e.a[0])
    if k == "tern":
        a, b = uint_kind(e.a[1]), uint_kind(e.a[2])
        if "int" in (a, b) or (a == "untyped" and b == "untyped"):
            return "int"
        return "concrete"
    if k in ("bin", "minmax"):
        if k == "bin" and e.v in ("<<", ">>"):
            a = uint_kind(e.a[0])
            return "int" if a == "untyped" else a
        a, b = uint_kind(e.a[0]), uint_kind(e.a[1])
        if "int" in (a, b) or (a == "untyped" and b == "untyped"):
            return "int"    # Math.max(1, 2) is not folded: two untyped literals get the default type
        return "concrete"   # at least one side is not constant, hence concrete
    return "concrete"


# ---------------------------------------------------------------------------------------------
# printer

PREC = {"tern": 3, "||": 4, "&&": 5, "|": 6, "^": 7, "&": 8, "==": 9, "!=": 9, "===": 9, "!==": 9,
        "<": 10, "<=": 10, ">": 10, ">=": 10, "<<": 11, ">>": 11, "+": 12, "-": 12, "*": 13, "/": 13, "%": 13}


def prec_of(n):
    if n.k in ("bin", "cmp", "logic"):
        return PREC[n.v]
    if n.k == "tern":
        return 3
    if n.k == "un":
        return 15
    if n.k in ("cast", "varcast"):
        return 10
    return 20


ATOMIC = ("lit", "prop", "local", "obj", "implicit", "call", "index", "enum", "this", "null", "minmax", "tr", "listlit")


def mk_cmp(op, a, b, const=False):
    """Comparison node.  `x < (...)` trips the TypeScript-derived grammar (type-argument ambiguity: it is misparsed
    or rejected), which is a property of the third-party parser, not of qmluic: such comparisons are built as
    `(...) > x` instead."""
    if op == "<" and b.k not in ATOMIC:
        op, a, b = ">", b, a
    return N("cmp", BOOL, (a, b), v=op, const=const)


def pr(n, rng=None, parent=0, right=False, no_extra=False):
    """Print an expression node with minimal parentheses (plus random redundant ones)."""
    s = _pr(n, rng)
    p = prec_of(n)
    if no_extra:
        rng = None
    need = p < parent or (p == parent and (right or n.k == "tern" or n.k in ("cast", "varcast")))
    if n.k in ("cast", "varcast"):
        need = parent > 0
    if n.k == "un" and parent >= 15:
        need = True
    if not need and rng is not None and p < 20 and rng.random() < 0.15:
        need = True
    return "(" + s + ")" if need else s


def _pr(n, rng):
    k = n.k
    if k == "lit":
        if n.t == BOOL:
            return "true" if n.v else "false"
        return n.v[1]
    if k == "enum":
        return "VfWidget." + n.v
    if k == "null":
        return "null"
    if k == "obj":
        return n.v
    if k == "this":
        return "this"
    if k == "implicit":
        return n.v
    if k == "local":
        return n.v
    if k == "prop":
        return pr(n.a[0], rng, 20) + "." + n.v
    if k == "un":
        inner = pr(n.a[0], rng, 15)
        if inner[:1] in "+-" and n.v in "+-":
            inner = "(" + inner + ")"
        return n.v + inner
    if k in ("bin", "cmp", "logic"):
        p = PREC[n.v]
        return "%s %s %s" % (pr(n.a[0], rng, p), n.v, pr(n.a[1], rng, p, right=True, no_extra=(n.v == "<")))
    if k == "tern":
        return "%s ? %s : %s" % (pr(n.a[0], rng, 4), pr(n.a[1], rng, 3, right=False) if n.a[1].k != "tern" else "(" + pr(n.a[1], rng) + ")",
                                 pr(n.a[2], rng, 3) if n.a[2].k != "tern" else pr(n.a[2], rng, 0))
    if k == "cast":
        return "%s as %s" % (pr(n.a[0], rng, 16), ANNOT[n.v])
    if k == "varcast":
        return "%s.vval as %s" % (pr(n.a[0], rng, 20), ANNOT[n.v])
    if k == "minmax":
        return "Math.%s(%s, %s)" % (n.v, pr(n.a[0], rng), pr(n.a[1], rng))
    if k == "tr":
        return "qsTr(%s)" % pr(n.a[0], rng)
    if k == "call":
        return "%s.%s(%s)" % (pr(n.a[0], rng, 20), n.v, ", ".join(pr(x, rng) for x in n.a[1:]))
    if k == "listlit":
        return "[%s]" % ", ".join(pr(x, rng) for x in n.a[0])
    if k == "index":
        return "%s[%s]" % (pr(n.a[0], rng, 20), pr(n.a[1], rng))
    raise ValueError(k)


def pr_stmts(stmts, rng, ind):
    pad = "    " * ind
    out = []
    for s in stmts:
        k = s.k
        if k == "let":
            name, lt, const, annotated = s.v
            out.append("%s%s %s%s = %s;" % (pad, "const" if const else "let", name, (": " + ANNOT[lt]) if annotated else "", pr(s.a[0], rng)))
        elif k == "assign":
            out.append("%s%s = %s;" % (pad, s.v, pr(s.a[0], rng)))
        elif k == "discard":
            out.append("%s(%s) as void;" % (pad, pr(s.a[0], rng)))
        elif k == "setelem":
            out.append("%s%s[%s] = %s;" % (pad, s.v, pr(s.a[0], rng), pr(s.a[1], rng)))
        elif k == "exprstmt":
            out.append("%s%s;" % (pad, pr(s.a[0], rng)))
        elif k == "return":
            out.append("%sreturn %s;" % (pad, pr(s.a[0], rng)) if s.a else "%sreturn;" % pad)
        elif k == "break":
            out.append("%sbreak;" % pad)
        elif k == "if":
            c, then, els = s.a
            out.append("%sif (%s) {" % (pad, pr(c, rng)))
            out += pr_stmts(then, rng, ind + 1)
            if els is not None:
                out.append("%s} else {" % pad)
                out += pr_stmts(els, rng, ind + 1)
            out.append("%s}" % pad)
        elif k == "switch":
            subject, labels, dpos, bodies = s.a
            out.append("%sswitch (%s) {" % (pad, pr(subject, rng)))
            li = 0
            # comments between clauses are valid JS; the current translator happens to reject them (then the program
            # simply counts as rejected), but if it accepts them the meaning must not change
            commented = rng is not None and rng.random() < 0.06
            for i, body in enumerate(bodies):
                if commented and rng.random() < 0.6:
                    out.append("%s// clause %d" % (pad, i))
                if dpos is not None and i == dpos:
                    out.append("%sdefault:" % pad)
                else:
                    out.append("%scase %s:" % (pad, pr(labels[li], rng)))
                    li += 1
                out += pr_stmts(body, rng, ind + 1)
            out.append("%s}" % pad)
        elif k == "setprop":
            out.append("%s%s.%s = %s;" % (pad, pr(s.a[0], rng, 20), s.v, pr(s.a[1], rng)))
        elif k == "docall":
            out.append("%s%s.%s(%s);" % (pad, pr(s.a[0], rng, 20), s.v, ", ".join(pr(x, rng) for x in s.a[1:])))
        elif k == "log":
            out.append("%sconsole.%s(%s);" % (pad, s.v, ", ".join(pr(x, rng) for x in s.a)))
        elif k == "block":
            out.append("%s{" % pad)
            out += pr_stmts(s.a[0], rng, ind + 1)
            out.append("%s}" % pad)
        else:
            raise ValueError(k)
    return out


def print_program(p, rng=None, ind=2):
    if p.k != "prog":
        return pr(p, rng)
    lines = pr_stmts(p.a[0], rng, ind + 1)
    return "{\n" + "\n".join(lines) + "\n" + "    " * ind + "}"


# ---------------------------------------------------------------------------------------------
# reference interpreter

def u16(s):
    return strings.utf16_units(s)


def vf_method(name, args):
    if name == "twice":
        return ctrunc(args[0], 2) + 1
    if name == "sum":
        return ctrunc(args[0], 2) + ctrunc(args[1], 2)
    if name == "greet":
        return "<" + args[0] + ">"
    if name == "test":
        return args[0] < args[1]
    if name == "half":
        return args[0] / 2
    raise ValueError(name)


def ctrunc(a, b):
    q = abs(a) // abs(b)
    return q if (a >= 0) == (b >= 0) else -q


def crem(a, b):
    return a - ctrunc(a, b) * b


def check_int(v):
    if not (INT_MIN <= v <= INT_MAX):
        raise Undefined("32-bit signed overflow")
    return v


def check_uint(v):
    if not (0 <= v <= UINT_MAX):
        raise Undefined("uint wrap-around")
    return v


def qstring_arg(fmt, a):
    """QString::arg: replace every occurrence of the lowest numbered place marker %1..%99."""
    import re
    nums = [int(m.group(1)) for m in re.finditer(r"%(\d{1,2})", fmt) if int(m.group(1)) > 0]
    if not nums:
        return fmt
    low = min(nums)

    def rep(m):
        return a if int(m.group(1)) == low else m.group(0)
    return re.sub(r"%(\d{1,2})", rep, fmt)


class Interp:
    def __init__(self, state, owner=None, on_effect=None):
        self.state = state       # obj id -> {prop: value}
        self.owner = owner
        self.scopes = [{}]
        self.reads = []          # (obj id, prop) in evaluation order
        self.effects = []        # side effects in execution order
        self.record_calls = False
        self.on_effect = on_effect

    def get_local(self, n):
        for s in reversed(self.scopes):
            if n in s:
                if s[n] is _UNSET:
                    raise Undefined("read of a never-assigned variable")
                return s[n]
        raise KeyError(n)

    def set_local(self, n, v):
        for s in reversed(self.scopes):
            if n in s:
                if s[n] is _UNSET:
                    # assignment before the declaration was reached (another clause of the same switch declares the name):
                    # a ReferenceError in ECMAScript, the enclosing variable under textual scoping -- not judged
                    raise Undefined("assignment to a variable of the switch body before its declaration")
                s[n] = v
                return
        raise KeyError(n)

    def ev(self, n):
        k = n.k
        if k == "lit":
            return n.v if n.t == BOOL else n.v[0]
        if k == "enum":
            return MODES.index(n.v)
        if k == "null":
            return None
        if k == "obj":
            return n.v
        if k == "this":
            return self.owner
        if k == "implicit":
            self.reads.append((self.owner, n.v))
            return self.state[self.owner][n.v]
        if k == "local":
            return self.get_local(n.v)
        if k == "prop":
            o = self.ev(n.a[0])
            if o is None:
                raise Undefined("null dereference")
            self.reads.append((o, n.v))
            return self.state[o][n.v]
        if k == "varcast":
            o = self.ev(n.a[0])
            if o is None:
                raise Undefined("null dereference")
            self.reads.append((o, "vval"))
            kind, v = self.state[o]["vval"]
            if kind != n.v:
                raise Undefined("the QVariant holds a value of another type (conversion rules are Qt's, not documented here)")
            return v
        if k == "un":
            v = self.ev(n.a[0])
            if n.v == "!":
                return not v
            if n.v == "+":
                return v
            if n.v == "-":
                if n.t == INT:
                    return check_int(-v)
                if n.t == UINT:
                    return check_uint(-v)
                return -v
            if n.v == "~":
                return check_int(~v) if n.t == INT else (UINT_MAX - v)
        if k == "logic":
            a = self.ev(n.a[0])
            if n.v == "&&":
                return self.ev(n.a[1]) if a else False
            return True if a else self.ev(n.a[1])
        if k == "tern":
            return self.ev(n.a[1]) if self.ev(n.a[0]) else self.ev(n.a[2])
        if k == "cmp":
            a, b = self.ev(n.a[0]), self.ev(n.a[1])
            ot = n.a[0].t
            if ot == STR:
                a, b = u16(a), u16(b)
            if ot == DOUBLE and (math.isnan(a) or math.isnan(b)):
                raise Undefined("NaN comparison")
            op = n.v
            return {"==": a == b, "===": a == b, "!=": a != b, "!==": a != b}[op] if op in ("==", "===", "!=", "!==") else \
                {"<": a < b, "<=": a <= b, ">": a > b, ">=": a >= b}[op]
        if k == "bin":
            a, b = self.ev(n.a[0]), self.ev(n.a[1])
            return self.binop(n.v, n.t, a, b, n.a[1].t)
        if k == "cast":
            v = self.ev(n.a[0])
            st, tt = n.a[0].t, n.v
            if st == tt:
                return v
            if tt == INT:
                if st == DOUBLE:
                    if math.isnan(v) or math.isinf(v) or not (INT_MIN - 1 < v < INT_MAX + 1):
                        raise Undefined("double out of int range")
                    return int(v)
                if st == UINT:
                    if v > INT_MAX:
                        raise Undefined("uint out of int range")
                    return v
                return int(v)   # bool, enum
            if tt == UINT:
                if st == DOUBLE:
                    if math.isnan(v) or math.isinf(v) or not (-1 < v < UINT_MAX + 1):
                        raise Undefined("double out of uint range")
                    return int(v)
                if st == INT and v < 0:
                    raise Undefined("negative int to uint")
                return int(v)
            if tt == DOUBLE:
                return float(v)
            raise ValueError((st, tt))
        if k == "minmax":
            a, b = self.ev(n.a[0]), self.ev(n.a[1])
            ka, kb = (u16(a), u16(b)) if n.t == STR else (a, b)
            if n.t == DOUBLE and (math.isnan(a) or math.isnan(b)):
                raise Undefined("NaN in min/max")
            if n.t == DOUBLE and a == b and (math.copysign(1, a) != math.copysign(1, b)):
                raise Undefined("min/max of zeros of different sign")
            if n.v == "max":
                return b if ka < kb else a
            return b if kb < ka else a
        if k == "tr":
            return self.ev(n.a[0])
        if k == "call":
            if n.v == "isEmpty":
                return len(self.ev(n.a[0])) == 0
            if n.v == "arg":
                fmt = self.ev(n.a[0])
                a = self.ev(n.a[1])
                return qstring_arg(fmt, a if isinstance(a, str) else str(a))
            # arguments are evaluated before the callee object (order of the translator; the generator keeps both pure)
            args = [self.ev(x) for x in n.a[1:]]
            o = self.ev(n.a[0])
            if o is None:
                raise Undefined("null dereference")
            if self.record_calls:
                self.effects.append(("call", o, n.v, [(x.t, a) for x, a in zip(n.a[1:], args)]))
            if n.v == "other":
                return self.state[o]["peer2"]
            return vf_method(n.v, args)
        if k == "listlit":
            return [self.ev(x) for x in n.a[0]]
        if k == "index":
            l = self.ev(n.a[0])
            i = self.ev(n.a[1])
            if not (0 <= i < len(l)):
                raise Undefined("subscript out of range")
            return l[i]
        raise ValueError(k)

    def binop(self, op, t, a, b, bt=None):
        if t == STR:
            return a + b
        if t == BOOL:
            return {"&": a and b, "|": a or b, "^": a != b}[op]
        if t == DOUBLE:
            try:
                r = {"+": lambda: a + b, "-": lambda: a - b, "*": lambda: a * b,
                     "%": lambda: math.fmod(a, b) if (b != 0 and not math.isinf(a)) else math.nan,
                     "/": lambda: (a / b) if b != 0 else (math.copysign(math.inf, a) * math.copysign(1, b) if a != 0 and not math.isnan(a) else math.nan)}[op]()
            except OverflowError:
                r = math.inf
            if math.isnan(r):
                raise Undefined("NaN")
            return r
        chk = check_int if t == INT else check_uint
        if op in ("+", "-", "*"):
            return chk({"+": a + b, "-": a - b, "*": a * b}[op])
        if op in ("/", "%"):
            if b == 0:
                raise Undefined("division by zero")
            if t == INT and a == INT_MIN and b == -1:
                raise Undefined("INT_MIN / -1")
            return chk(ctrunc(a, b) if op == "/" else crem(a, b))
        if op in ("&", "|", "^"):
            return chk({"&": a & b, "|": a | b, "^": a ^ b}[op])
        if op in ("<<", ">>"):
            if not (0 <= b <= 31):
                raise Undefined("shift count out of range")
            if a < 0:
                raise Undefined("shift of a negative value")
            return chk(a << b) if op == "<<" else (a >> b)
        raise ValueError(op)

    # ---- statements: returns ('return', v) | ('break',) | None ; completion value in self.completion
    def run(self, stmts):
        for s in stmts:
            r = self.stmt(s)
            if r is not None:
                return r
        return None

    def stmt(self, s):
        k = s.k
        if k == "let":
            name = s.v[0]
            v = self.ev(s.a[0])
            self.scopes[-1][name] = v
            return None
        if k == "assign":
            self.set_local(s.v, self.ev(s.a[0]))
            return None
        if k == "discard":
            self.ev(s.a[0])
            return None
        if k == "setelem":
            v = self.ev(s.a[1])
            i = self.ev(s.a[0])
            l = list(self.get_local(s.v))
            if not (0 <= i < len(l)):
                raise Undefined("subscript out of range")
            l[i] = v
            self.set_local(s.v, l)
            return None
        if k == "exprstmt":
            self.completion = self.ev(s.a[0])
            return None
        if k == "return":
            return ("return", self.ev(s.a[0]) if s.a else None)
        if k == "break":
            return ("break",)
        if k == "setprop":
            # right-hand side first, then the receiver (order of the translator; both are pure)
            v = self.ev(s.a[1])
            o = self.ev(s.a[0])
            if o is None:
                raise Undefined("null dereference")
            # the setter is called with v; like the model's (and Qt's) setters it leaves the property alone when the value compares
            # equal to the current one -- observable for -0.0 written over +0.0 (and the other way round) only
            if not (isinstance(v, float) and isinstance(self.state[o].get(s.v), float) and self.state[o][s.v] == v):
                self.state[o][s.v] = v
            self.effects.append(("write", o, s.v, s.a[1].t, v))
            return None
        if k == "docall":
            args = [(x.t, self.ev(x)) for x in s.a[1:]]
            o = self.ev(s.a[0])
            if o is None:
                raise Undefined("null dereference")
            self.effects.append(("call", o, s.v, args))
            return None
        if k == "log":
            self.effects.append(("log", s.v, [(x.t, self.ev(x)) for x in s.a]))
            return None
        if k == "if":
            c, then, els = s.a
            branch = then if self.ev(c) else els
            if branch is None:
                return None
            self.scopes.append({})
            try:
                return self.run(branch)
            finally:
                self.scopes.pop()
        if k == "block":
            self.scopes.append({})
            try:
                return self.run(s.a[0])
            finally:
                self.scopes.pop()
        if k == "switch":
            subject, labels, dpos, bodies = s.a
            v = self.ev(subject)
            if subject.t == STR:
                v = u16(v)
            start = None
            li = 0
            order = []
            for i in range(len(bodies)):
                if dpos is not None and i == dpos:
                    order.append((i, None))
                else:
                    order.append((i, labels[li]))
                    li += 1
            for i, lab in order:
                if lab is None:
                    continue
                lv = self.ev(lab)
                if subject.t == STR:
                    lv = u16(lv)
                if lv == v:
                    start = i
                    break
            if start is None:
                if dpos is None:
                    return None
                start = dpos
            self.scopes.append({})
            # names declared directly in a clause belong to the switch body as a whole: entering at a later clause, they exist
            # but have not been assigned (reading one is undefined)
            for body in bodies:
                for st in body:
                    if st.k == "let":
                        self.scopes[-1][st.v[0]] = _UNSET
            try:
                for i in range(start, len(bodies)):
                    r = self.run(bodies[i])
                    if r is not None:
                        if r[0] == "break":
                            return None
                        return r
            finally:
                self.scopes.pop()
            return None
        raise ValueError(k)


_UNSET = object()


def evaluate(prog, state, owner=None):
    """-> value of the program in `state`; raises Undefined."""
    it = Interp(state, owner)
    if prog.k != "prog":
        return it.ev(prog), it.reads
    it.completion = _UNSET
    r = it.run(prog.a[0])
    if r is not None and r[0] == "return":
        return r[1], it.reads
    if it.completion is _UNSET:
        raise Undefined("no value on this path")
    return it.completion, it.reads


def double_bits(v):
    return "%016x" % struct.unpack("<Q", struct.pack("<d", v))[0]


def run_void(stmts, state, owner=None, params=None):
    """Executes a callback body on a COPY of `state`; -> (effects, final state).  Raises Undefined."""
    import copy
    st = copy.deepcopy(state)
    it = Interp(st, owner)
    it.record_calls = True
    it.completion = _UNSET
    if params:
        it.scopes[0].update(params)
    it.run(stmts)
    return it.effects, st
