"""Hostile string pools and QML/JS string-literal printing with a known denotation."""

MARKUP = ["a & b", "<b>bold</b>", "x < y > z", "]]>", "<!-- c -->", "&amp;", "&#65;", "&lt;tag&gt;", "a&b;c", "<?pi?>",
          "<![CDATA[x]]>", "&", "<", ">", "&&&", "</string>", "<string>"]
QUOTES = ['say "hi"', "it's", "\"", "'", "\"'\"'", "a\\b", "\\", "\\n", "C:\\dir\\file", "%1 of %2", "100%"]
BLANKS = [" lead", "trail ", "  two  spaces  ", "\ttab", "a\tb", "line1\nline2", "\nstart", "end\n", " ", "   ", "",
          "a\n\n\nb", "x \n y"]
NONASCII = ["caf\u00e9", "stra\u00dfe", "\u65e5\u672c\u8a9e", "\U0001F600 smile", "e\u0301 combining", "\u05e9\u05dc\u05d5\u05dd",
            "nbsp\u00a0here", "zero\u200bwidth", "\ufeffbom", "\u2028ls", "\u2029ps", "\U00010000", "\uffff\U00010000",
            "\ud7ff\ue000", "A\u030a\u00c5\u212b", "\u00ad soft", "\ufffd", "\U0010fffd"]
CR = ["a\rb", "a\r\nb", "\r", "end\r"]
# characters XML 1.0 cannot carry: only well-formedness-or-rejection is asserted for these
CONTROLS = ["\x01", "a\x0bb", "\x0c", "x\x1fy", "\x00", "nul\x00mid", "\x08", "\x1b[0m", "\ufffe", "a\uffffb"]
PLAIN = ["OK", "Cancel", "Hello world!", "&File", "Name:", "x", "Apply", "Some longer text with several words.", "42", "a.png",
         ":/icons/app.png", "Ctrl+S", "Monospace", "Sans Serif"]


def xml_carriable(s):
    """True if every character of s is a Char of XML 1.0 (and survives parsing unchanged)."""
    for ch in s:
        c = ord(ch)
        if c in (0x9, 0xA, 0xD) or 0x20 <= c <= 0xD7FF or 0xE000 <= c <= 0xFFFD or 0x10000 <= c <= 0x10FFFF:
            continue
        return False
    return True


def pick_string(rng, hostile=True, allow_controls=False, allow_cr=True):
    """-> (string, pool name)"""
    if not hostile:
        return rng.choice(PLAIN), "plain"
    pools = [("plain", PLAIN, 2), ("markup", MARKUP, 3), ("quotes", QUOTES, 2), ("blanks", BLANKS, 3),
             ("nonascii", NONASCII, 3)]
    if allow_cr:
        pools.append(("cr", CR, 1))
    if allow_controls:
        pools.append(("controls", CONTROLS, 1))
    total = sum(w for _, _, w in pools)
    r = rng.uniform(0, total)
    for name, pool, w in pools:
        r -= w
        if r <= 0:
            break
    s = rng.choice(pool)
    if rng.random() < 0.25:
        n2, p2, _ = rng.choice(pools)
        s = s + rng.choice(p2)
        if n2 in ("controls", "cr"):
            name = n2 if name not in ("controls",) else name
    return s, name


def js_literal(rng, s, style=None, surrogate_escapes=False):
    """Print `s` as an ECMAScript string literal (random choice of quotes and escapes)."""
    q = rng.choice(('"', '"', "'")) if style is None else style
    out = [q]
    for i, ch in enumerate(s):
        c = ord(ch)
        if ch == q or ch == "\\":
            out.append("\\" + ch)
        elif ch == "\n":
            out.append(rng.choice(("\\n", "\\x0a", "\\u000a", "\\u{a}")))
        elif ch == "\r":
            out.append(rng.choice(("\\r", "\\x0d", "\\u000D")))
        elif ch == "\t":
            out.append(rng.choice(("\\t", "\t", "\\x09")))
        elif ch == "\x0b":
            out.append(rng.choice(("\\v", "\\x0b")))
        elif ch == "\x0c":
            out.append(rng.choice(("\\f", "\\x0c")))
        elif ch == "\x08":
            out.append(rng.choice(("\\b", "\\x08")))
        elif ch == "\x00":
            # "\0" directly followed by a digit would be a legacy octal escape (a syntax error in QML)
            nxt = s[i + 1:i + 2]
            out.append(rng.choice(("\\x00", "\\u0000")) if nxt.isdigit() else rng.choice(("\\0", "\\x00", "\\u0000")))
        elif c < 0x20 or c == 0x7f:
            out.append(rng.choice(("\\x%02x" % c, "\\u%04X" % c, "\\u{%x}" % c)))
        elif c in (0x2028, 0x2029, 0xfeff, 0xfffe, 0xffff):
            out.append("\\u%04x" % c)
        elif c > 0xffff:
            r = rng.random()
            if r < 0.4:
                out.append(ch)
            elif r < 0.7 or not surrogate_escapes:
                out.append("\\u{%X}" % c)
            else:
                # \\uD83D\\uDE00: valid ECMAScript, but qmluic rejects it (each half is not a character)
                v = c - 0x10000
                out.append("\\u%04X\\u%04X" % (0xD800 + (v >> 10), 0xDC00 + (v & 0x3FF)))
        elif c > 0x7e:
            out.append(ch if rng.random() < 0.7 else "\\u%04x" % c)
        else:
            if ch.isalpha() and rng.random() < 0.03:
                out.append("\\x%02X" % c)
            else:
                out.append(ch)
    out.append(q)
    return "".join(out)


def utf16_units(s):
    b = s.encode("utf-16-le", "surrogatepass")
    return [b[i] | (b[i + 1] << 8) for i in range(0, len(b), 2)]


# (spelling in the QML source, string it denotes in ECMAScript).  A document may be rejected (qmluic supports a subset of the
# escapes); if it is accepted the string read back from the .ui must be the denoted one.
SPELLED_LITERALS = [
    ('"Save changes \\\nbefore closing?"', "Save changes before closing?"),       # line continuation: contributes nothing
    ('"a\\\r\nb"', "ab"), ('"a\\\rb"', "ab"), ("'x \\\n y'", "x  y"), ('"\\\n"', ""), ('"tail\\\n"', "tail"),
    ('"a\\/b"', "a/b"), ('"a\\-b"', "a-b"), ('"\\q"', "q"), ('"it\\\'s"', "it's"), ("'say \\\"hi\\\"'", 'say "hi"'),
    ('"\\x41\\u0042\\u{43}"', "ABC"), ('"\\u{1F600}"', "\U0001F600"), ('"\\uD83D\\uDE00"', "\U0001F600"),
    ('"a\\u2028b"', "a\u2028b"), ('"\\t|\\v|\\f|\\b"', "\t|\x0b|\x0c|\x08"), ('"]]\\x3e"', "]]>"), ('"&amp;\\x26"', "&amp;&"),
]
