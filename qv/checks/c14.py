"""C14 — the dynamic-binding mode changes only the support code and its diagnostics."""
import copy
import json
import re

from .. import common, doccheck, gen_doc
from ..gen_doc import DocGen


def make_docs(rng, n):
    docs = []
    for i in range(n):
        r = i % 4
        g = DocGen(rng, hostile_strings=(i % 7 == 0), adversarial_names=False,
                   dynamic=(0.0 if r == 0 else 0.3), callbacks=(0.0 if r in (0, 1) else 0.3),
                   max_depth=rng.choice((3, 4, 5)), max_fanout=rng.choice((3, 5)), max_objects=rng.choice((6, 15, 30)),
                   max_bindings=rng.choice((2, 4, 8)))
        d = g.make()
        d.fault = None
        d.variant = ("constant-only", "dynamic", "dynamic+callbacks", "dynamic+callbacks")[r]
        if i % 3 == 2:
            d2 = copy.deepcopy(d)
            f = gen_doc.plant_fault(rng, d2, rng.choice(gen_doc.FAULT_KINDS))
            if f is not None:
                d2.fault = f.kind
                d = d2
        elif i % 11 == 0:
            # warning-only documents: accepted, with diagnostics
            d.source = d.source.replace("import qmluic.QtWidgets\n", "import qmluic.QtWidgets 6.2\n", 1)
            d.variant += "+warning"
        elif i % 13 == 0:
            # separator action with a callback: .ui shape depends on the callback list being the same in every mode
            d.source = d.source.rstrip()[:-1] + "    QAction { separator: true; onHovered: {} }\n}\n"
            d.variant += "+separator-callback"
        docs.append(d)
    return docs + constant_only_docs()


class RawDoc:
    def __init__(self, source, variant):
        self.source, self.type_name, self.fault, self.variant = source, "MyType", None, variant


# dynamic expressions bound where only constants can be honoured (pseudo objects and pseudo properties): whatever a mode
# does with them, the three modes must stay in the relation the property states
CONSTANT_ONLY_TARGETS = [
    "QSpacerItem { orientation: wide.checked ? Qt.Horizontal : Qt.Vertical }",
    "QSpacerItem { sizeHint.width: wide.checked ? 10 : 20 }",
    "QSpacerItem { sizeHint { width: spin.value; height: 3 } }",
    "QSpacerItem { sizeType: wide.checked ? QSizePolicy.Fixed : QSizePolicy.Expanding }",
    "QSpacerItem { id: sp; orientation: Qt.Horizontal; onDestroyed: {} }",
    "QPushButton { QAction { separator: wide.checked } }",
    "QPushButton { QAction { id: act } actions: wide.checked ? [act] : [] }",
    "QComboBox { model: [edit.text, \"b\"] }",
    "QComboBox { model: wide.checked ? [\"a\"] : [\"b\"] }",
    "QVBoxLayout { spacing: spin.value }",
    "QVBoxLayout { contentsMargins.left: spin.value }",
    "QGridLayout { columns: spin.value; QLabel {} }",
    "QLabel { QLayout.rowStretch: spin.value }",
    "QLabel { buddy: wide.checked ? edit : spin }",
    "QTabWidget { QWidget { QTabWidget.title: edit.text } }",
    "QPushButton { default_: wide.checked }",
    "QTreeView { header.visible: wide.checked }",
    "QTableView { horizontalHeader.defaultSectionSize: spin.value }",
]


def constant_only_docs():
    out = []
    for t in CONSTANT_ONLY_TARGETS:
        src = ("import qmluic.QtWidgets\nQWidget {\n    QVBoxLayout {\n        QCheckBox { id: wide }\n        QSpinBox { id: spin }\n"
               "        QLineEdit { id: edit }\n        %s\n    }\n}\n" % t)
        out.append(RawDoc(src, "dynamic-on-constant-only-target"))
    return out


def errset(r):
    return {(d["message"], d["start"], d["end"]) for d in r.get("diagnostics", []) if d["kind"] == "error"}


def header_counts(h):
    """(bindings, callbacks) declared by a support header."""
    m = re.search(r"enum class BindingIndex : unsigned \{(.*?)\};", h, re.S)
    nb = len([x for x in (m.group(1) if m else "").split(",") if x.strip()])
    ncb = len(re.findall(r"^\s*void on\w+\(", h, re.M))
    m2 = re.search(r"void setup\(\)\s*\{(.*?)\}", h, re.S)
    nsetup = len([x for x in (m2.group(1) if m2 else "").split(";") if x.strip()])
    return nb, ncb, nsetup


def mode_histories(v, docs, n):
    """'presence of support code under each mode' at the place a user observes it: the output tree of the command line.  The
    same tree is generated with --no-dynamic-binding first and in generate mode afterwards (the .ui is byte-identical between the
    two by this very property): the generate run must leave the header of a generation into an empty tree, the .ui must not
    differ, and the reject run must not have produced a header."""
    import os
    import subprocess
    wd = common.workdir("c14hist")
    env = dict(os.environ, NO_COLOR="1")
    cmd = [common.CLI, "generate-ui", "--foreign-types", common.METATYPES, "--foreign-types", common.VF_TYPES]
    done = 0
    for k, d in enumerate(docs[:n]):
        hist, fresh = os.path.join(wd, "h%d" % k), os.path.join(wd, "f%d" % k)
        for x in (hist, fresh):
            os.makedirs(x)
            open(os.path.join(x, "MyType.qml"), "w").write(d.source)
        p1 = subprocess.run(cmd + ["--no-dynamic-binding", "MyType.qml"], cwd=hist, capture_output=True, env=env, timeout=120)
        if p1.returncode:
            continue    # not a constant-only document after all
        header_after_reject = os.path.exists(os.path.join(hist, "uisupport_mytype.h"))
        ui1 = open(os.path.join(hist, "mytype.ui"), "rb").read()
        p2 = subprocess.run(cmd + ["MyType.qml"], cwd=hist, capture_output=True, env=env, timeout=120)
        p3 = subprocess.run(cmd + ["MyType.qml"], cwd=fresh, capture_output=True, env=env, timeout=120)
        if p2.returncode or p3.returncode:
            v.violation("history:generate-refuses", "accepted with --no-dynamic-binding but refused in generate mode",
                        {"qml": d.source, "stderr": (p2.stderr + p3.stderr).decode("utf-8", "replace")[-2000:]})
            continue
        done += 1
        rp = {"qml": d.source, "history": ["generate-ui --no-dynamic-binding", "generate-ui"]}
        if header_after_reject:
            v.violation("history:header-outside-generate", "--no-dynamic-binding wrote a support header", rp)
        elif not os.path.exists(os.path.join(hist, "uisupport_mytype.h")):
            v.violation("history:no-header-in-generate", "generate mode over the outputs of a --no-dynamic-binding run left no support "
                        "header (a generation into an empty tree writes one)", rp)
        elif open(os.path.join(hist, "uisupport_mytype.h"), "rb").read() != open(os.path.join(fresh, "uisupport_mytype.h"), "rb").read():
            v.violation("history:header-differs", "support header differs from a generation into an empty tree", rp)
        elif not (ui1 == open(os.path.join(hist, "mytype.ui"), "rb").read() == open(os.path.join(fresh, "mytype.ui"), "rb").read()):
            v.violation("history:ui-differs", ".ui bytes differ between the two modes on disk", rp)
    return done


def run(tier, seed, replay=None):
    v = common.Verdict("C14", tier, seed)
    rng = common.rng_for(seed, "C14", tier)
    n = 3000 if tier == "quick" else 30000
    docs = make_docs(rng, n)
    if replay:
        rp = json.load(open(replay))
        docs = [d for d in docs if d.source == rp.get("qml")]
        if not docs:
            raise common.HarnessError("replay case not regenerated (different seed/tier?)")
    res, out = doccheck.translate_docs(docs, modes=("generate", "reject", "omit"), want=("ui", "header"), tag="c14")
    stats = {"ui_compared_3": 0, "ui_compared_2": 0, "reject_accepted": 0, "reject_refused_dynamic": 0,
             "both_refused": 0, "omit_errors_checked": 0}
    variants = {}
    distinct = set()
    samples = []
    for d, r in zip(docs, res):
        if r is None:
            v.inconc("no result")
            continue
        g, rj, om = r["generate"][0], r["reject"][0], r["omit"][0]
        if any(x.get("panic") for x in (g, rj, om)):
            v.inconc("panic (C07)")
            continue
        rp = {"qml": d.source, "fault": d.fault, "generate": {k: g.get(k) for k in ("built", "has_error", "diagnostics", "ui", "header")},
              "reject": {k: rj.get(k) for k in ("built", "has_error", "diagnostics", "ui")},
              "omit": {k: om.get(k) for k in ("built", "has_error", "diagnostics", "ui")}}
        # (1) .ui identical whenever produced
        uis = [(m, x["ui"]) for m, x in (("generate", g), ("reject", rj), ("omit", om)) if x.get("built") and "ui" in x]
        if len({u for _, u in uis}) > 1:
            a, b = uis[0], next(x for x in uis if x[1] != uis[0][1])
            v.violation("ui-differs:%s-%s" % (a[0], b[0]), ".ui differs between %s and %s mode" % (a[0], b[0]), rp)
            continue
        if len(uis) == 3:
            stats["ui_compared_3"] += 1
        elif len(uis) == 2:
            stats["ui_compared_2"] += 1
        built = {m: bool(x.get("built")) for m, x in (("generate", g), ("reject", rj), ("omit", om))}
        if len(set(built.values())) > 1:
            v.violation("form-presence", "a form is produced in some modes only: %r" % built, rp)
            continue
        # (4) header in generate mode only, and always there
        if rj.get("has_header") or om.get("has_header"):
            v.violation("header-outside-generate", "support header produced outside generate mode", rp)
            continue
        if g.get("built") and not g.get("has_header"):
            v.violation("no-header-in-generate", "generate mode produced a form but no support header", rp)
            continue
        # (2) reject accepted <=> generate accepted with an empty header
        g_acc, r_acc = doccheck.accepted(g), doccheck.accepted(rj)
        empty = None
        if g_acc:
            nb, ncb, nsetup = header_counts(g["header"])
            empty = (nb == 0 and ncb == 0 and nsetup == 0)
        if r_acc != bool(g_acc and empty):
            v.violation("reject-acceptance", "reject mode accepted=%r but generate accepted=%r with %s" % (
                r_acc, g_acc, "empty header" if empty else "bindings/callbacks in the header" if g_acc else "n/a"), rp)
            continue
        if r_acc:
            stats["reject_accepted"] += 1
        elif g_acc:
            stats["reject_refused_dynamic"] += 1
        else:
            stats["both_refused"] += 1
        # (3) errors of omit mode are errors of generate mode
        extra = errset(om) - errset(g)
        stats["omit_errors_checked"] += len(errset(om))
        if extra:
            v.violation("omit-only-error", "omit mode reports errors generate mode does not: %r" % sorted(extra)[:2], rp)
            continue
        variants[d.variant + ("/fault" if d.fault else "")] = variants.get(d.variant + ("/fault" if d.fault else ""), 0) + 1
        key = (d.variant, d.fault, g_acc, r_acc, len(errset(g)), len(errset(rj)), len(errset(om)))
        if g.get("built"):
            distinct.add(((doccheck.doc_shape(d) if hasattr(d, "root") else common.shash(d.source)),) + key)
        if len(samples) < 4 and (d.fault or "+" in d.variant) and len(d.source) < 1200 and key[:2] not in [s["key"][:2] for s in samples]:
            samples.append({"key": list(key), "qml": d.source, "accepted": {"generate": g_acc, "reject": r_acc},
                            "errors": {"generate": sorted(errset(g))[:3], "reject": sorted(errset(rj))[:3], "omit": sorted(errset(om))[:3]}})
    n_hist = 0 if replay else mode_histories(v, [d for d in docs if getattr(d, "variant", "") == "constant-only" and not d.fault],
                                             12 if tier == "quick" else 120)
    stats["mode_histories_on_disk"] = n_hist
    return v.finish(
        evaluations=len(docs) + n_hist, distinct_nontrivial=len(distinct),
        rule="constant-only, dynamic, callback-carrying, warning-only and single-fault documents, each translated in the three "
             "modes by the real library; distinct = distinct (tree shape, variant, fault kind, acceptance per mode, error counts)",
        samples=samples, relations_observed=stats, documents_by_variant=variants, floor=100,
    )
