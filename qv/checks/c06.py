"""C06 — generated function bodies have sound control flow and define before use."""
import json
import os
import re
from concurrent.futures import ThreadPoolExecutor

from .. import cbdoc, common, cxxmodel, cxxrun, exprdoc, gen_expr as ge
from .c01 import translate_docs

CF_KINDS = ["block", "ifelse", "switch", "early-return", "switch", "ifelse"]


def scan_header(h):
    """Token-level scan of every function body of a support header: labels, jumps, block ends.
    -> (alarms, functions scanned, blocks scanned)"""
    alarms = []
    nfun = nblk = 0
    # function bodies: a line `<type> name(...)` followed by `{` ... matching `}` at 4-space indentation
    lines = h.splitlines()
    i = 0
    while i < len(lines):
        m = re.match(r"^    (?:[\w:<>\*& ]+?)\b(eval\w+|on\w+)\([^)]*\)\s*$", lines[i])
        if not m or i + 1 >= len(lines) or lines[i + 1].strip() != "{":
            i += 1
            continue
        name = m.group(1)
        j = i + 2
        body = []
        while j < len(lines) and lines[j] != "    }":
            body.append(lines[j])
            j += 1
        i = j + 1
        if not any(re.match(r"^\s*b\d+:$", b) for b in body):
            continue   # gadget-map helper etc.
        nfun += 1
        labels = {}
        cur = None
        for b in body:
            lm = re.match(r"^\s*(b\d+):$", b)
            if lm:
                cur = lm.group(1)
                if cur in labels:
                    alarms.append("%s: label %s defined twice" % (name, cur))
                labels[cur] = []
            elif cur is not None:
                labels[cur].append(b.strip())
        for lab, stmts in labels.items():
            nblk += 1
            stmts = [s for s in stmts if s and not s.startswith("#")]
            if not stmts:
                alarms.append("%s: block %s is empty (control runs off its end)" % (name, lab))
                continue
            last = stmts[-1]
            ok = bool(re.fullmatch(r"goto b\d+;", last) or re.fullmatch(r"return( .*)?;", last) or last == "Q_UNREACHABLE();")
            if ok and re.fullmatch(r"goto b\d+;", last) and len(stmts) >= 4 and stmts[-2] == "else" and re.fullmatch(r"goto b\d+;", stmts[-3]) \
                    and stmts[-4].startswith("if ("):
                pass
            if not ok:
                alarms.append("%s: block %s ends with %r" % (name, lab, last))
            for s in stmts:
                for tgt in re.findall(r"\bgoto (b\d+);", s):
                    if tgt not in labels:
                        alarms.append("%s: block %s jumps to missing label %s" % (name, lab, tgt))
        if "b0" not in labels:
            alarms.append("%s: no entry label" % name)
        elif name.startswith("eval"):
            # a value-returning body returns a value on every reachable path
            seen, todo = set(), ["b0"]
            while todo:
                x = todo.pop()
                if x in seen or x not in labels:
                    continue
                seen.add(x)
                for st in labels[x]:
                    todo += re.findall(r"\bgoto (b\d+);", st)
            for lab in sorted(seen):
                if any(st == "return;" for st in labels[lab]):
                    alarms.append("%s: value-returning function executes a bare 'return;' in reachable block %s" % (name, lab))
    return alarms, nfun, nblk


def ir_corpus(rng, n_docs):
    docs = []
    for i in range(n_docs):
        if i % 3 == 2:
            docs.append(("void", cbdoc.CbDoc(rng, n_handlers=10, max_depth=rng.choice((2, 3)))))
        else:
            docs.append(("value", exprdoc.ExprDoc(rng, n_targets=3, max_depth=rng.choice((2, 3)), kinds=CF_KINDS,
                                                  void_path_hazard=(i % 4 == 1), gadget_members=(i % 2 == 1))))
    return docs


class RawValueDoc:
    """A few fixed bindings whose bodies complete WITHOUT a value on some or every path, bound to properties of every type incl.
    QVariant (which accepts a value of any type, but not no value): rejected, or - if accepted - judged like any other body."""
    SOURCE = """import qmluic.QtWidgets
QWidget {
    id: root
    QCheckBox { id: chk }
    VfWidget { id: a }
    QSlider { id: sl1 }
    QSlider { id: sl2; %s }
    VfWidget { id: t0; %s }
}
"""
    BODIES = ["vval: { a.doIt() }", "vval: { console.log(1) }", "vval: { if (chk.checked) { a.doIt() } }", "vval: a.doIt()",
              "vval: { if (chk.checked) return 1; }", "vval: { switch (a.ival) { case 1: return \"x\"; } }", "vval: { let x = a.ival }",
              "ival: { a.doIt() }", "sval: { if (chk.checked) return \"x\"; a.doIt() }", "bval: { }", "vval: { }", "vval: { return; }",
              # a value of a flag type next to an enumerator of the enum it wraps (two types, one conversion) in the branches of a
              # ternary / if: every temporary the conversion needs is assigned on the path that reads it
              "opts: chk.checked ? a.opts : VfWidget.OptX", "opts: chk.checked ? VfWidget.OptY : a.opts",
              "opts: { if (chk.checked) { return a.opts } return VfWidget.OptX }", "opts: chk.checked ? (a.bval ? a.opts : VfWidget.OptZ) : VfWidget.OptX",
              "onIvalChanged: { a.opts = chk.checked ? a.opts : VfWidget.OptX }", "onIvalChanged: { let o = chk.checked ? VfWidget.OptY : a.opts; a.opts = o }",
              # (Qt.Vertical denotes the flag alias Qt::Orientations, QSlider::orientation is a Qt::Orientation)
              "@sl2 orientation: chk.checked ? sl1.orientation : Qt.Vertical", "@sl2 orientation: chk.checked ? Qt.Horizontal : sl1.orientation",
              "onIvalChanged: { sl2.orientation = chk.checked ? sl1.orientation : Qt.Vertical }",
              "onIvalChanged: { sl2.orientation = chk.checked ? Qt.Vertical : (a.bval ? sl1.orientation : Qt.Horizontal) }",
              "@sl2 orientation: { if (chk.checked) { return sl1.orientation } return Qt.Vertical }",
              "mode: chk.checked ? a.mode : VfWidget.ModeB", "opts: chk.checked ? a.opts | VfWidget.OptX : VfWidget.OptY"]

    def __init__(self, body):
        self.source = self.SOURCE % ((body[5:], "") if body.startswith("@sl2 ") else ("", body))
        self.bindings, self.handlers, self.features = [], [], set()

    def drop_rejected(self, diagnostics):
        return []


def run(tier, seed, replay=None):
    v = common.Verdict("C06", tier, seed)
    rng = common.rng_for(seed, "C06", tier)
    n_ir_docs = 170 if tier == "quick" else 4200
    n_run = (20, 10) if tier == "quick" else (400, 200)
    use_valgrind = tier == "thorough"
    cxxmodel.ensure_model()

    # ---------------------------------------------------------------- IR monitor over a large corpus
    corpus = ir_corpus(rng, n_ir_docs) + [("value", RawValueDoc(b)) for b in RawValueDoc.BODIES]
    docs = [d for _, d in corpus]
    results, rejected = translate_docs(docs, "c06", want=("observed", "header"))
    n_bodies = n_blocks = n_brcond = 0
    shapes = set()
    n_fun = n_blk = 0
    samples = []
    for (kind, d), r in zip(corpus, results):
        if r is None:
            v.inconc("no translation result")
            continue
        if r.get("panic"):
            v.violation("panic", "translation panicked: %s" % r["panic"], {"qml": d.source})
            continue
        if not (r.get("built") and not r.get("has_error") and not r.get("has_syntax_error")):
            continue
        for o in r.get("observed", []):
            n_bodies += 1
            n_blocks += o["n_blocks"]
            n_brcond += o["n_brcond"]
            for key, sig in (("alarms_cfg", "ir-control-flow"), ("alarms_defassign", "ir-use-before-assignment")):
                if o[key]:
                    v.violation(sig, "%s %s of %s: %s" % (o["kind"], ".".join(o["path"]), o["object"], o[key][0]),
                                {"qml": d.source, "object": o["object"], "path": o["path"], "alarms": o[key], "shape": o["shape"]})
            if o["n_brcond"] >= 1:
                shapes.add(o["shape"])
        if "header" in r:
            al, nf, nb = scan_header(r["header"])
            n_fun += nf
            n_blk += nb
            for a in al:
                v.violation("header-scan", a, {"qml": d.source, "header": r["header"]})
                break
        if len(samples) < 2 and kind == "void":
            o = next((o for o in r.get("observed", []) if o["kind"] == "callback" and 3 <= o["n_brcond"] <= 6), None)
            if o:
                h = next((h for h in d.handlers if h.signal == o["signal"]), None)
                if h:
                    samples.append({"handler": h.src[:900], "ir_shape": o["shape"], "blocks": o["n_blocks"], "reachable": o["n_reachable"],
                                    "conditional_branches": o["n_brcond"], "alarms": 0})

    # ---------------------------------------------------------------- run time: unreachable marker / uninitialised reads
    base = common.workdir("c06")
    work = []
    vdocs = [exprdoc.ExprDoc(rng, n_targets=2, max_depth=rng.choice((2, 3)), kinds=CF_KINDS) for _ in range(n_run[0])]
    cdocs = [cbdoc.CbDoc(rng, n_handlers=8, max_depth=rng.choice((2, 3))) for _ in range(n_run[1])]
    rres, _ = translate_docs(vdocs + cdocs, "c06r")
    n_pairs = 0
    for i, (d, r) in enumerate(zip(vdocs + cdocs, rres)):
        if r is None or r.get("panic") or not (r.get("built") and not r.get("has_error") and not r.get("has_syntax_error")):
            continue
        cd = os.path.join(base, "d%d" % i)
        try:
            if isinstance(d, exprdoc.ExprDoc):
                d.resolve_functions(r["header"])
                live = [bi for bi, b in enumerate(d.bindings) if b.func]
                states = d.make_states(12)
                plan = []
                for si, st in enumerate(states):
                    bis = []
                    for bi in live:
                        try:
                            ge.evaluate(d.bindings[bi].prog, st, owner=d.bindings[bi].target)
                            bis.append(bi)
                        except ge.Undefined:
                            pass
                    plan.append((si, bis))
                    n_pairs += len(bis)
                cxxrun.write_case(cd, r["ui"], r["header"], exprdoc.driver_eval(d, states, plan))
                exprdoc.write_plan_files(cd, d, states, plan)
                tags = {"s%d.b%d" % (si, bi): d.bindings[bi].src for si, bis in plan for bi in bis}
            else:
                cases = d.make_cases(6)
                plan = []
                for ci, (st, args) in enumerate(cases):
                    for hi, h in enumerate(d.handlers):
                        try:
                            ge.run_void(h.body, st, owner=h.sender, params={n: a for (n, _), a in zip(h.params, args[hi])})
                            plan.append((ci, hi))
                        except ge.Undefined:
                            pass
                n_pairs += len(plan)
                cxxrun.write_case(cd, r["ui"], r["header"], cbdoc.driver(d, cases, plan))
                cbdoc.write_states(cd, cases)
                tags = {"c%d.h%d" % (ci, hi): d.handlers[hi].src for ci, hi in plan}
        except cxxmodel.UicError as e:
            v.inconc("mini-uic: %s" % e)
            continue
        work.append((d, cd, tags, r))

    def build_and_run(item):
        d, cd, tags, r = item
        ok, err = cxxrun.compile_case(cd, sanitize=not use_valgrind)
        if not ok:
            return item, ("compile", err)
        return item, ("run", cxxrun.run_case(cd, valgrind=use_valgrind))

    n_runs = 0
    with ThreadPoolExecutor(max_workers=common.NCPU) as ex:
        for item, (kind, payload) in ex.map(build_and_run, work):
            d, cd, tags, r = item
            if kind == "compile":
                if "error: control reaches end" in payload or "return-statement" in payload or "-Werror=return-type" in payload:
                    v.violation("falls-off-end", "function falls off its end (-Werror=return-type): %s" % payload[-400:],
                                {"qml": d.source, "header": r["header"], "compiler": payload[-3000:]})
                else:
                    v.inconc("does not compile (C16's business): %s" % payload[-200:])
                continue
            status, events, err = payload
            n_runs += 1
            open_tag = None
            for e in events:
                if e.get("ev") == "begin":
                    open_tag = e["tag"]
                elif e.get("ev") in ("result", "end"):
                    open_tag = None
                if e.get("ev") == "unreachable":
                    v.violation("unreachable-marker-reached", "Q_UNREACHABLE() reached in %s while running a defined case" % e.get("func"),
                                {"program": tags.get(e.get("tag")), "qml": d.source, "event": e})
            if status == 95:
                uninit = "uninitialised" in err or "Uninitialised" in err
                v.violation("valgrind-uninitialised" if uninit else "valgrind-error",
                            "memcheck reports %s while running defined cases: %s" % ("use of an uninitialised value" if uninit else "an error",
                                                                                   err.strip().splitlines()[0][:200]),
                            {"program": tags.get(open_tag), "qml": d.source, "stderr": err[-4000:]})
            elif status == cxxrun.EXIT_SANITIZER:
                v.violation("sanitizer-report", "sanitizer report while running a defined case: %s" % err.strip().splitlines()[0][:200],
                            {"program": tags.get(open_tag), "qml": d.source, "stderr": err[-4000:]})
            elif status not in (0, cxxrun.EXIT_UNREACHABLE) and status != "timeout":
                v.inconc("driver ended with status %r: %s" % (status, err[-200:]))
    v.assumptions = ["IR monitor (harness/src/monitors.rs) is written independently of the builder; definite assignment is judged for "
                     "every local because the generators give every declaration an initialiser",
                     "run-time part executes only (program, state) pairs the reference interpreter classifies as defined"]
    return v.finish(
        evaluations=n_bodies + n_pairs, distinct_nontrivial=len(shapes),
        rule="value programs and callback bodies with arbitrary nestings of ternary, &&, ||, if/else, switch/case/default/break, "
             "early return, blocks ending in declarations, dead code after return/break: (1) CFG + definite-assignment monitor on "
             "the finished IR via the hook, (2) token scan of every emitted function body, (3) execution under %s; distinct "
             "non-trivial = distinct IR shapes (statement kinds + terminators per block) with >= 1 conditional branch"
             % ("valgrind memcheck (origin tracking)" if use_valgrind else "ASan+UBSan"),
        samples=samples, ir_bodies_monitored=n_bodies, ir_blocks=n_blocks, ir_conditional_branches=n_brcond,
        header_functions_scanned=n_fun, header_blocks_scanned=n_blk, executed_documents=n_runs, executed_defined_cases=n_pairs,
        programs_rejected_by_qmluic=len(rejected), valgrind=use_valgrind, floor=100,
    )
