"""C10 — object names are unique and every reference resolves, across both outputs."""
import json
import os
import re

from .. import catalog, common, doccheck, uiparse
from ..gen_doc import DocGen

# custom components whose generated-name prefix collides with Qt classes / numbered names
COMPONENTS = {"Label1": "QLabel", "Label": "QLabel", "Widget2": "QWidget", "PushButton": "QPushButton",
              "VboxLayout1": "QWidget", "Action1": "QWidget", "Frame": "QFrame", "QLabel1": "QLabel", "Kbutton": "QPushButton",
              "SpacerItem": "QWidget", "Label10": "QLabel", "Menu1": "QWidget",
              # rooted in QAction: the generated name of an anonymous instance is `separator`, the word <addaction> reserves
              "Separator": "QAction", "Action2": "QAction"}


CLUSTERS = [("QLabel", "Label"), ("QPushButton", "PushButton"), ("QWidget", "Widget"), ("QCheckBox", "CheckBox"), ("QLineEdit", "LineEdit"),
            ("QFrame", "Frame")]


def cluster_doc(rng):
    """Many anonymous objects whose generated names compete: a Qt class, components named <Stem><digits> rooted in it, and ids that
    look like generated names, as siblings in any order (chains of collisions: label1 taken, label2 taken, label11 ...)."""
    from ..gen_doc import Doc, Obj
    qcls, stem = rng.choice(CLUSTERS)
    alikes = rng.sample([stem + x for x in ("1", "2", "3", "11", "12", "21", "")], rng.randint(2, 5))
    comps = {a: qcls for a in alikes}
    root = Obj("QWidget", "widget")
    lay = Obj(rng.choice(("QVBoxLayout", "QHBoxLayout")), "layout")
    lay.parent = root
    root.children.append(lay)
    pool = alikes + [qcls] * rng.randint(2, 5)
    low = stem[:1].lower() + stem[1:]
    taken = set()
    for _ in range(rng.randint(4, 11)):
        o = Obj(rng.choice(pool), "widget")
        o.parent = lay
        if rng.random() < 0.15:
            cand = low + rng.choice(("", "1", "2", "3", "11", "12"))
            if cand not in taken:
                o.id = cand            # an id that looks like a generated name
                taken.add(cand)
        lay.children.append(o)
    d = Doc(root, "Main")
    d.print(rng)
    return d, comps


def make_docs(rng, n, base):
    docs = []
    for i in range(n):
        comps = {}
        if i % 2 == 0:
            for k in rng.sample(sorted(COMPONENTS), rng.randint(1, 4)):
                comps[k] = COMPONENTS[k]
        g = DocGen(rng, hostile_strings=False, adversarial_names=True, dynamic=0.35, callbacks=0.3,
                   max_depth=rng.choice((3, 4, 5)), max_fanout=rng.choice((4, 6, 9)), max_objects=rng.choice((10, 25, 50)),
                   max_bindings=rng.choice((1, 2, 4)), groups=False, components=comps)
        d = g.make(type_name="Main")
        if i % 5 == 2:
            d, comps = cluster_doc(rng)
        d.components = comps
        d.dup_id = None
        if i % 10 == 9:
            # plant a duplicated id: must be rejected
            withid = [o for o in d.objects() if o.id]
            others = [o for o in d.objects() if o.kind != "separator"]
            if withid and len(others) > 1:
                a = rng.choice(withid)
                b = rng.choice([o for o in others if o is not a])
                b.id = a.id
                d.dup_id = a.id
                d.print(rng)
        d.bad_ref = None
        if i % 10 == 8:
            # plant a reference to an object of an incompatible class: buddy -> action/layout/spacer,
            # actions -> widget.  It must be rejected; if it is accepted the reference check below fires.
            from ..gen_doc import Binding
            objs = d.objects()
            labels = [o for o in objs if o.cls == "QLabel" and not any(getattr(b, "path", None) == ("buddy",) for b in o.bindings)]
            nonw = [o for o in objs if o.id and o.kind in ("action", "layout", "spacer")]
            wid = [o for o in objs if o.id and o.kind == "widget"]
            holders = [o for o in objs if o.kind in ("widget", "menu") and not any(getattr(b, "path", None) == ("actions",) for b in o.bindings)]
            if labels and nonw and rng.random() < 0.6:
                o, t = rng.choice(labels), rng.choice(nonw)
                b = Binding(("buddy",), t.id, "const", ("cstring", t.id))
                b.owner = o
                o.bindings.append(b)
                d.bad_ref = "buddy: %s (a %s)" % (t.id, t.cls)
                d.print(rng)
            elif holders and wid:
                o, t = rng.choice(holders), rng.choice(wid)
                if t is not o and not d.components.get(t.cls, t.cls) == "QMenu":
                    b = Binding(("actions",), "[%s]" % t.id, "const", ("actions", [t.id]))
                    b.owner = o
                    b.surface = "pseudo"
                    o.bindings.append(b)
                    o.explicit_actions = [t.id]
                    d.bad_ref = "actions: [%s] (a %s)" % (t.id, t.cls)
                    d.print(rng)
        if i % 10 in (1, 6) and not d.dup_id and not d.bad_ref:
            # an action declared inside an object that cannot hold children (a static separator, an action, a spacer - think of a
            # misplaced brace) and named in an `actions` list elsewhere: rejected, or the reference denotes a declared object
            from ..gen_doc import Binding, Obj
            objs = d.objects()
            hosts = [o for o in objs if o.kind in ("action", "separator", "spacer") and not o.children]
            holders = [o for o in objs if o.kind in ("widget", "menu") and not any(getattr(b, "path", None) == ("actions",) for b in o.bindings)
                       and getattr(o, "explicit_actions", None) is None]
            if hosts and holders:
                h, o = rng.choice(hosts), rng.choice(holders)
                c = Obj("QAction", "action")
                c.id = "stray%d" % i
                c.parent = h
                h.children.append(c)
                b = Binding(("actions",), "[%s]" % c.id, "const", ("actions", [c.id]))
                b.owner = o
                b.surface = "pseudo"
                o.bindings.append(b)
                o.explicit_actions = [c.id]
                d.print(rng)
        d.dir = os.path.join(base, "p%d" % i)
        os.makedirs(d.dir, exist_ok=True)
        with open(os.path.join(d.dir, "Main.qml"), "w") as f:
            f.write(d.source)
        for k, b in comps.items():
            with open(os.path.join(d.dir, k + ".qml"), "w") as f:
                f.write("import qmluic.QtWidgets\n%s {}\n" % b)
        docs.append(d)
    return docs


HANDLER_COLLISIONS = """import qmluic.QtWidgets
QWidget {
    id: root
    QComboBox { id: name; editable: true; onEditTextChanged: console.log("combo") }
    QLineEdit { id: nameEdit; onTextChanged: console.log("edit"); text: name.currentText }
    QLineEdit { id: search; onReturnPressed: console.log("return"); enabled: searchReturn.checked }
    QPushButton { id: searchReturn; checkable: true; onPressed: console.log("pressed") }
    QLabel { id: a; text: nameEdit.text; onWindowTitleChanged: {} }
    QLabel { id: aWindow; onTitleChanged_: {} }
}
""".replace("    QLabel { id: aWindow; onTitleChanged_: {} }\n", "")


def handler_name_collisions(v):
    """Every setup/update/eval/on function of the header is one member: two handlers must never share a name."""
    out = common.translate([{"id": "hc", "source": HANDLER_COLLISIONS, "modes": ["generate"], "want": ["ui", "header"]}], tag="c10h")
    rs = out.results.get("hc")
    if not rs or rs[0].get("panic") or not doccheck.accepted(rs[0]):
        v.violation("collision-document-rejected", "document whose handler names collide after capitalisation is rejected: %r"
                    % ([x["message"] for x in rs[0].get("diagnostics", [])][:3] if rs else None), {"qml": HANDLER_COLLISIONS})
        return 0
    h = rs[0]["header"]
    names = re.findall(r"^    (?:[\w:<>\*& ]+?)\b((?:setup|update|eval|on)\w+)\([^)]*\)\s*$", h, re.M)
    dups = sorted({n for n in names if names.count(n) > 1})
    if dups:
        v.violation("handler-name-ambiguous", "member functions %r are defined more than once: this->%s() does not denote one handler" % (dups, dups[0]),
                    {"qml": HANDLER_COLLISIONS, "header": h})
    return len(names)


def run(tier, seed, replay=None):
    v = common.Verdict("C10", tier, seed)
    rng = common.rng_for(seed, "C10", tier)
    n = 2400 if tier == "quick" else 20000
    base = common.workdir("c10")
    docs = make_docs(rng, n, base)
    if replay:
        rp = json.load(open(replay))
        docs = [d for d in docs if d.source == rp.get("qml")]
        if not docs:
            raise common.HarnessError("replay case not regenerated (different seed/tier?)")
    jobs = [{"id": "d%d" % i, "source": "", "path": os.path.join(d.dir, "Main.qml"), "modes": ["generate"],
             "want": ["ui", "header"]} for i, d in enumerate(docs)]
    out = common.translate(jobs, tag="c10")
    n_member_functions = handler_name_collisions(v) if not replay else 0
    cat = catalog.load()
    n_acc = n_rej = n_names = n_refs = n_gen = n_dup_rejected = n_badref_rejected = 0
    distinct = set()
    samples = []
    rejected_msgs = {}
    for i, d in enumerate(docs):
        rs = out.results.get("d%d" % i)
        if not rs:
            v.inconc("no result")
            continue
        g = rs[0]
        if g.get("panic") or g.get("populate_error"):
            v.inconc("panic / populate error (C07, C18): %s" % (g.get("panic") or g.get("populate_error")))
            continue
        rp = {"qml": d.source, "components": d.components, "ui": g.get("ui"), "header": g.get("header")}
        if d.dup_id is not None:
            if doccheck.accepted(g):
                v.violation("duplicate-id-accepted", "document with id %r given twice was accepted" % d.dup_id, rp)
            else:
                n_dup_rejected += 1
            continue
        if d.bad_ref is not None and not doccheck.accepted(g):
            n_badref_rejected += 1
            continue
        if not doccheck.accepted(g):
            n_rej += 1
            for dg in g.get("diagnostics", [])[:1]:
                rejected_msgs[dg["message"][:70]] = rejected_msgs.get(dg["message"][:70], 0) + 1
            continue
        n_acc += 1
        try:
            root = uiparse.parse(g["ui"])
        except uiparse.UiSyntaxError as e:
            v.inconc("ill-formed .ui (C09): %s" % e)
            continue
        named = uiparse.named_objects(root)
        names = [nm for (_, nm, _, _) in named]
        n_names += len(names)
        dups = sorted({x for x in names if names.count(x) > 1})
        if dups:
            who = [(t, nm, c) for (t, nm, c, _) in named if nm in dups]
            v.violation("duplicate-name", "names %r are carried by several objects: %r" % (dups, who), rp)
            continue
        mapping, alarms = doccheck.match_tree(d, root)
        if alarms:
            code, a = alarms[0]
            if code == "id-name":
                v.violation("id-not-verbatim", a, rp)
            else:
                v.inconc("tree mismatch (C11): %s" % a)
            continue
        ids = {o.id for o in d.objects() if o.id}
        bad = False
        for o, e in mapping.items():
            if o.id is None:
                n_gen += 1
                nm = e.attrs.get("name", "")
                pref = catalog.qtify(o.cls)
                if not re.fullmatch(re.escape(pref) + r"\d*", nm):
                    v.violation("generated-name-form", "anonymous %s is named %r, not derived from its class (%s<n>)" % (o.cls, nm, pref), rp)
                    bad = True
                    break
                if nm in ids:
                    v.violation("generated-name-equals-id", "anonymous %s got the name %r which is also an id" % (o.cls, nm), rp)
                    bad = True
                    break
                if nm == "separator":
                    # <addaction name="separator"/> is the .ui format's own word for "insert a separator": an object carrying that
                    # name can never be referenced (the reference denotes no declared object)
                    v.violation("generated-name-separator", "anonymous %s got the generated name 'separator', which <addaction> reserves: "
                                "a reference to it denotes a menu separator, not this object" % o.cls, rp)
                    bad = True
                    break
        if bad:
            continue
        by_name = {nm: (t, c) for (t, nm, c, _) in named}

        def cls_is(c, base):
            return cat.is_a(d.components.get(c, c), base)

        # references inside the .ui
        for node in root.walk():
            if node.tag == "addaction":
                n_refs += 1
                nm = node.attrs.get("name")
                if nm == "separator":
                    continue
                t = by_name.get(nm)
                if t is None or not (t[0] == "action" or (t[0] == "widget" and cls_is(t[1], "QMenu"))):
                    v.violation("addaction-unresolved", "addaction %r does not denote a declared action or menu (%r)" % (nm, t), rp)
                    bad = True
                    break
            if node.tag == "cstring":
                n_refs += 1
                nm = node.text
                t = by_name.get(nm)
                if t is None or t[0] != "widget":
                    v.violation("object-ref-unresolved", "object-valued property refers to %r which is %r" % (nm, t), rp)
                    bad = True
                    break
        if bad:
            continue
        # references in the support header
        h = g.get("header") or ""
        for nm in set(re.findall(r"ui_->([^\W\d]\w*)", h)):
            n_refs += 1
            if nm not in by_name:
                v.violation("header-ref-unresolved", "support header accesses ui_->%s which no element declares" % nm, rp)
                bad = True
                break
        if bad:
            continue
        root_name = root.find("widget").attrs.get("name")
        if re.search(r"ui_->%s\b" % re.escape(root_name), h):
            v.violation("header-root-ref", "support header accesses the root object through ui_->%s" % root_name, rp)
            continue
        anon = [o for o in d.objects() if o.id is None and o.kind != "separator"]
        prefixes = [catalog.qtify(o.cls) for o in anon]
        looks_generated = [x for x in ids if re.fullmatch(r"[a-z]\w*?\d*", x) and any(x.rstrip("0123456789") == p for p in prefixes)]
        if anon and (looks_generated or len(set(prefixes)) < len(prefixes)):
            distinct.add(doccheck.doc_shape(d))
        if len(samples) < 3 and looks_generated and len(d.objects()) <= 10 and d.components:
            samples.append({"qml": d.source[:1200], "components": d.components,
                            "names_in_ui": sorted(names)})
    total = n_acc + n_rej
    if total and n_rej > 0.25 * total:
        v.inconc("generator produced %d rejected documents of %d: %r" % (n_rej, total, rejected_msgs))
    v.assumptions = ["class compatibility of ui_-><name> accesses is decided by compiling the header (C16), not here"]
    return v.finish(
        evaluations=total + n_dup_rejected + n_badref_rejected, distinct_nontrivial=len(distinct),
        rule="trees mixing ids and anonymous objects; ids and custom component names drawn from generated-looking names "
             "(label1, Label1, widget2, ...); distinct = distinct tree shape having anonymous objects whose prefix collides "
             "with an id or with another anonymous object",
        samples=samples, accepted=n_acc, rejected=n_rej, rejected_reasons=rejected_msgs, names_checked=n_names,
        member_functions_of_collision_document=n_member_functions,
        generated_names_checked=n_gen, references_checked=n_refs, duplicate_id_documents_rejected=n_dup_rejected,
        incompatible_reference_documents_rejected=n_badref_rejected, floor=50,
    )
