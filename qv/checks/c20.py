"""C20 — preview-mode error recovery is local to the faulty object."""
import copy
import json
import re

from .. import common, doccheck, gen_doc, uiparse
from ..gen_doc import DocGen, Group

KINDS = ["unknown-property", "ill-typed", "duplicate-binding", "duplicate-grouped", "duplicate-attached",
         "unknown-type", "invalid-type", "unknown-attached-type", "unknown-signal", "read-only", "ill-typed-pseudo", "unused-attached"]
ARRAYS = ("stretch", "rowstretch", "columnstretch", "rowminimumheight", "columnminimumwidth")


def ids_in(o):
    return {x.id for x in o.walk() if x.id}


def referenced_outside(doc, sub):
    inner = set(sub.walk())
    ids = ids_in(sub)
    if not ids:
        return False
    for o in doc.objects():
        if o in inner:
            continue
        for b in o.bindings:
            for m in (b.members if isinstance(b, Group) else [b]):
                toks = set(re.findall(r"[^\W\d]\w*", m.src))
                if toks & ids:
                    return True
    return False


def canon(n, mask_elem=None, mask_item=None, mask_layout=None):
    """Comparable structure of an element tree with the permitted parts masked."""
    attrs = dict(n.attrs)
    if n is mask_item:
        attrs = {}
    if n is mask_layout:
        for a in ARRAYS:
            attrs.pop(a, None)
    kids = []
    for c in n.children:
        if n is mask_elem and c.tag in ("property", "attribute", "item") and not (c.tag == "item" and n.tag == "layout"):
            continue   # the faulty object's own values (properties, attributes, model items)
        if n is mask_elem and c.tag == "addaction":
            continue   # explicit actions list is a property value of the faulty object too
        kids.append(canon(c, mask_elem, mask_item, mask_layout))
    structural = n.tag in ("ui", "widget", "layout", "item", "spacer", "action", "customwidgets", "customwidget")
    if n.tag == "class" and n.parent is not None and n.parent.tag == "ui":
        structural = True   # the two documents of a pair live in differently named files
    return (n.tag, tuple(sorted(attrs.items())), "" if (n.children or structural) else n.text, tuple(kids))


def props_subset(faulted_elem, base_elem):
    """The faulty object may lose values, not gain or change them."""
    for kind in ("property", "attribute"):
        fb = uiparse.properties_of(faulted_elem, kind)
        bb = uiparse.properties_of(base_elem, kind)
        for k, e in fb.items():
            if k not in bb:
                return "gained %s %s" % (kind, k)
            if canon(e) != canon(bb[k]):
                return "changed %s %s" % (kind, k)
    return None


COMPONENTS = {"StatusPanel": "QFrame", "MyEdit": "QLineEdit", "Fancy": "QWidget", "Badge": "QLabel"}


def make_cases(rng, n):
    import os
    cases = []
    tries = 0
    root = common.workdir("c20")
    made = set()

    def group_dir(tries):
        # translating a document parses every QML file of its directory: keep the directories small (120 documents each)
        d = os.path.join(root, "g%d" % (tries // 180))
        if d not in made:
            os.makedirs(d, exist_ok=True)
            for k, b in COMPONENTS.items():
                with open(os.path.join(d, k + ".qml"), "w") as f:
                    f.write("import qmluic.QtWidgets\n%s {}\n" % b)
            made.add(d)
        return d
    while len(cases) < n and tries < n * 4:
        tries += 1
        use_comps = (tries % 3 == 0)
        g = DocGen(rng, hostile_strings=False, adversarial_names=False, dynamic=0.1, callbacks=0.1,
                   max_depth=rng.choice((3, 4, 5)), max_fanout=rng.choice((3, 5)), max_objects=rng.choice((8, 16, 30)),
                   max_bindings=rng.choice((2, 4, 6)), components=(COMPONENTS if use_comps else None))
        base = g.make(type_name="Main%d" % tries if use_comps else "MyType")
        if use_comps:
            base.path = os.path.join(group_dir(tries), "Main%d.qml" % tries)
        attach_layout_props(rng, base)
        base.print(None)
        kind = KINDS[len(cases) % len(KINDS)]
        faulted = copy.deepcopy(base)
        f = gen_doc.plant_fault(rng, faulted, kind)
        if f is None:
            continue
        if f.binding is not None and (len(cases) // len(KINDS)) % 2 == 0:
            # half of the binding faults are steered (rejection sampling) onto a layout child that carries attached bindings
            # and is followed by an auto-flow sibling: there a loss of the object's layout instructions moves other objects
            def exposed(ft):
                o = ft.obj
                if not any(getattr(b, "attached", False) for b in o.bindings if b is not ft.binding):
                    return False
                sib = o.parent.children if o.parent is not None else []
                later = sib[sib.index(o) + 1:] if o in sib else []
                return any(not any(getattr(b, "attached", False) for b in c.bindings) for c in later)
            for _ in range(12):
                if exposed(f):
                    break
                f2d = copy.deepcopy(base)
                f2 = gen_doc.plant_fault(rng, f2d, kind)
                if f2 is not None and f2.binding is not None:
                    faulted, f = f2d, f2
        if f.binding is None:
            # reference document: the same document without the faulty object
            if referenced_outside(faulted, f.obj):
                continue
            idx = faulted.objects().index(f.obj)
            base = copy.deepcopy(base)
            victim = base.objects()[idx]
            victim.parent.children.remove(victim)
            if getattr(victim.parent, "explicit_actions", None) is not None:
                continue
            base.print(None)
        if getattr(base, "path", None):
            # two files: the reference document and the faulted one (same type name is not needed for the comparison
            # because <class> is masked below by using the same file stem for neither; keep them apart on disk)
            faulted.path = base.path.replace(".qml", "F.qml")
            faulted.type_name = base.type_name + "F"
        cases.append((base, faulted, f))
    return cases


def attach_layout_props(rng, doc):
    """Give children of grid/form/box layouts explicit cells / stretch so that losing them is visible."""
    from ..gen_doc import Binding
    for o in doc.objects():
        if o.kind != "layout" or not o.children:
            continue
        for k, c in enumerate(o.children):
            if any(getattr(b, "attached", False) for b in c.bindings):
                continue
            if o.cls in ("QGridLayout", "QFormLayout") and rng.random() < 0.5:
                row, col = k // 2 + 1, k % 2
                for nm, val in (("row", row), ("column", col)):
                    b = Binding(("QLayout", nm), str(val), "const", None, attached=True)
                    b.owner, b.surface = c, "layoutattr"
                    c.bindings.append(b)
            elif o.cls == "QVBoxLayout" and rng.random() < 0.4:
                b = Binding(("QLayout", "rowStretch"), str(rng.randint(1, 5)), "const", None, attached=True)
                b.owner, b.surface = c, "layoutattr"
                c.bindings.append(b)


def run(tier, seed, replay=None):
    v = common.Verdict("C20", tier, seed)
    rng = common.rng_for(seed, "C20", tier)
    n = 600 if tier == "quick" else 15000
    cases = make_cases(rng, n)
    if replay:
        rp = json.load(open(replay))
        cases = [c for c in cases if c[1].source == rp.get("faulted_qml")]
        if not cases:
            raise common.HarnessError("replay case not regenerated (different seed/tier?)")
    docs = [c[0] for c in cases] + [c[1] for c in cases]
    res, out = doccheck.translate_docs(docs, modes=("omit",), want=("ui",), tag="c20")
    nb = len(cases)
    pending = []
    distinct = set()
    samples = []
    by_kind = {}
    n_skipped = 0
    for i, (base, faulted, f) in enumerate(cases):
        rb, rf = res[i], res[nb + i]
        if rb is None or rf is None:
            v.inconc("no result")
            continue
        rb, rf = rb["omit"][0], rf["omit"][0]
        rp = {"kind": f.kind, "base_qml": base.source, "faulted_qml": faulted.source, "faulty_object": f.obj.name_hint(),
              "base_ui": rb.get("ui"), "faulted_ui": rf.get("ui"), "faulted_diagnostics": rf.get("diagnostics")}
        if rb.get("panic"):
            v.inconc("panic on the fault-free document (C07): %s" % rb.get("panic"))
            continue
        if rf.get("panic"):
            # the fault-free document translates; with the fault planted the translation dies: no form, no diagnostic
            v.violation("no-form:" + f.kind, "faulted document (%s) yields no form in omit mode: the translation panics (%s)"
                        % (f.kind, rf["panic"][:160]), rp)
            continue
        if not doccheck.accepted(rb):
            n_skipped += 1
            continue
        if not rf.get("built") or "ui" not in rf:
            v.violation("no-form:" + f.kind, "faulted document (%s) yields no form in omit mode" % f.kind, rp)
            continue
        if not rf.get("has_error"):
            v.violation("error-not-reported:" + f.kind, "planted fault (%s) is not reported in omit mode" % f.kind, rp)
            continue
        try:
            tb, tf = uiparse.parse(rb["ui"]), uiparse.parse(rf["ui"])
        except uiparse.UiSyntaxError as e:
            v.inconc("ill-formed .ui (C09): %s" % e)
            continue
        if f.binding is None:
            # exactly that object's subtree is absent
            if canon(tb) != canon(tf):
                v.violation("subtree:" + f.kind, "form differs from the form of the document without the faulty object", rp)
                continue
        else:
            mb, ab = doccheck.match_tree(base, tb)
            mf, af = doccheck.match_tree(faulted, tf)
            if ab:
                v.inconc("base tree mismatch (C11): %s" % ab[0][1])
                continue
            if af:
                v.violation("tree:" + f.kind, "faulted form does not preserve the object tree: %s" % af[0][1], rp)
                continue
            if f.obj.kind == "separator":
                # a separator action has no element of its own: its whole representation is its parent's
                # <addaction name="separator"/>, which is outside the faulty object and must stay
                if canon(tb) != canon(tf):
                    v.violation("nonlocal:" + f.kind, "fault on a separator action changes the form (the separator's only trace is its "
                                "parent's <addaction name=\"separator\"/>)", rp)
                    continue
                by_kind[f.kind + "@separator"] = by_kind.get(f.kind + "@separator", 0) + 1
                continue
            ef = mf[f.obj]
            idx = faulted.objects().index(f.obj)
            eb = mb[base.objects()[idx]]
            if (ef.tag, ef.attrs.get("class"), ef.attrs.get("name")) != (eb.tag, eb.attrs.get("class"), eb.attrs.get("name")):
                v.violation("identity:" + f.kind, "faulty object changed element kind, class or name", rp)
                continue

            def masks(e):
                item = e.parent if (e.parent is not None and e.parent.tag == "item") else None
                lay = item.parent if item is not None else None
                return e, item, lay
            cf, cb = canon(tf, *masks(ef)), canon(tb, *masks(eb))
            if cf != cb:
                if f.kind == "duplicate-attached":
                    pending.append((i, base, faulted, f, rp, cf, idx))   # judged below against the listed finding
                    continue
                sig = "nonlocal:" + f.kind
                v.violation(sig, "form differs outside the faulty object %s (%s fault)" % (f.obj.name_hint(), f.kind), rp)
                continue
            why = props_subset(ef, eb)
            if why:
                v.violation("gained:" + f.kind, "faulty object %s %s" % (f.obj.name_hint(), why), rp)
                continue
        by_kind[f.kind] = by_kind.get(f.kind, 0) + 1
        pos = faulted.objects().index(f.obj)
        distinct.add((f.kind, doccheck.doc_shape(base), pos))
        if len(samples) < 4 and len(faulted.source) < 900 and f.kind not in [s["kind"] for s in samples]:
            samples.append({"kind": f.kind, "faulty_object": f.obj.name_hint(), "faulted_qml": faulted.source,
                            "errors": [d["message"] for d in rf["diagnostics"] if d["kind"] == "error"][:3],
                            "form_identical_outside_object": True})
    # Listed finding: a duplicate attached binding drops ALL attached bindings of the object.  An observation is
    # attributed to it only if the faulted form equals the form of the document with exactly that deviation.
    if pending:
        docs3 = []
        for (i, base, faulted, f, rp, cf, idx) in pending:
            d3 = copy.deepcopy(base)
            o3 = d3.objects()[idx]
            o3.bindings = [b for b in o3.bindings if not getattr(b, "attached", False)]
            d3.print(None)
            docs3.append(d3)
        res3, _ = doccheck.translate_docs(docs3, modes=("omit",), want=("ui",), tag="c20b")
        for (i, base, faulted, f, rp, cf, idx), d3, r3 in zip(pending, docs3, res3):
            sig = "nonlocal:duplicate-attached"
            try:
                t3 = uiparse.parse(r3["omit"][0]["ui"])
                m3, a3 = doccheck.match_tree(d3, t3)
                e3 = m3[d3.objects()[idx]]
                item = e3.parent if (e3.parent is not None and e3.parent.tag == "item") else None
                lay = item.parent if item is not None else None
                if not a3 and canon(t3, e3, item, lay) == cf:
                    sig = "duplicate-attached-drops-all-attached"
            except Exception:
                pass
            v.violation(sig, "form differs outside the faulty object %s: a duplicated attached binding moved its successors"
                        % f.obj.name_hint(), rp)
    if n_skipped > 0.3 * max(1, len(cases)):
        v.inconc("%d of %d reference documents were not accepted" % (n_skipped, len(cases)))
    v.assumptions = ["masked as 'its own property values': the faulty object's property/attribute/model-item/addaction children, "
                     "the attributes of its wrapping <item> and the per-row/column arrays of its parent layout"]
    return v.finish(
        evaluations=len(cases), distinct_nontrivial=len(distinct),
        rule="accepted documents with one planted fault (%s) at a random object, compared in omit mode with the same document "
             "without the fault; distinct = distinct (fault kind, tree shape, position of the faulty object)" % ", ".join(KINDS),
        samples=samples, pairs_by_fault_kind=by_kind, reference_documents_rejected=n_skipped, floor=60,
    )
