"""C13 — signal callbacks are wired to the right signal and do what the source says."""
import json
import os
from concurrent.futures import ThreadPoolExecutor

from .. import cbdoc, common, cxxmodel, cxxrun, gen_expr as ge
from .c01 import translate_docs


def nul_cut_only(got, exp, src):
    """True iff the traces differ ONLY in string items of console.* effects, each observed string being the expected one
    cut at its first U+0000, and the handler source spells a NUL escape in a literal (the listed finding's prediction)."""
    import re
    if len(got) != len(exp) or not re.search(r"\\(0(?![0-9])|x00|u0000|u\{0+\})", src):
        return False
    hit = False
    for a, b in zip(got, exp):
        if a == b:
            continue
        if not (a[0] == b[0] == "log" and a[1] == b[1] and len(a[2]) == len(b[2])):
            return False
        for x, y in zip(a[2], b[2]):
            if x == y:
                continue
            if not (isinstance(x, tuple) and isinstance(y, tuple) and x[:1] == y[:1] == ("s",)):
                return False
            if 0 not in y[1] or tuple(x[1]) != tuple(y[1][:list(y[1]).index(0)]):
                return False
            hit = True
    return hit


def value_class_parameters(v, rng, base, n_rounds):
    """Handlers whose parameters are value classes (QFont): a parameter is the handler's own copy, it may be modified and
    copied; the effects (console items, one property write) are computed here from the emitted argument values."""
    from .. import doccheck
    n_traces = 0
    for k in range(n_rounds):
        c1, c2 = rng.randint(1, 90), rng.randint(1, 90)
        qml = ("import qmluic.QtWidgets\nQWidget {\n    id: root\n    VfWidget { id: t0 }\n"
               "    VfWidget {\n        id: s0\n        onFonted: function(f: QFont) { f.pointSize = %d; f.bold = !f.bold; console.log(f.pointSize, f.bold) }\n    }\n"
               "    VfWidget {\n        id: s1\n        onFonted: function(f: QFont) { let g = f; g.pointSize = %d; console.log(f.pointSize, g.pointSize) }\n    }\n"
               "    VfWidget {\n        id: s2\n        onFonted2: function(n: int, f: QFont) { f.pointSize = n + f.pointSize; t0.ival = f.pointSize; console.info(f.italic) }\n    }\n"
               "    VfWidget {\n        id: s3\n        onFonted: (f: QFont) => { f = t0.font; console.warn(f.pointSize) }\n    }\n"
               "}\n" % (c1, c2))
        out = common.translate([{"id": "g%d" % k, "source": qml, "modes": ["generate"], "want": ["ui", "header"]}], tag="c13g")
        rs = out.results.get("g%d" % k)
        rp = {"qml": qml}
        if not rs:
            v.inconc("no translation result (value-class parameters)")
            continue
        r = rs[0]
        if r.get("panic"):
            v.violation("panic", "translation panicked: %s" % r["panic"], rp)
            continue
        if not doccheck.accepted(r):
            v.violation("valid-handler-rejected", "handlers with value-class parameters rejected: %r" % [x["message"] for x in r.get("diagnostics", [])][:2], rp)
            continue
        emissions = []
        L = ["#include \"qtmodel.h\"", "#include \"ui_mytype.h\"", "#include \"uisupport_mytype.h\"", "int main() {", "    QWidget root;", "    Ui::MyType ui;",
             "    ui.setupUi(&root);", "    UiSupport::MyType sup(&root, &ui);", "    qvm::tag() = \"setup\";", "    sup.setup();",
             "    QFont t0f; t0f.setPointSize(33); qvm::quiet() = true; ui.t0->setFont(t0f); qvm::quiet() = false;"]
        for e in range(4):
            ps, bold, ital, n = rng.randint(1, 60), rng.random() < 0.5, rng.random() < 0.5, rng.randint(-5, 40)
            L.append("    { QFont f; f.setPointSize(%d); f.setBold(%s); f.setItalic(%s);" % (ps, str(bold).lower(), str(ital).lower()))
            for sender, call, exp in (
                    ("s0", "fonted(f)", [("log", "debug", ((ge.INT, c1), (ge.BOOL, not bold)))]),
                    ("s1", "fonted(f)", [("log", "debug", ((ge.INT, ps), (ge.INT, c2)))]),
                    ("s2", "fonted2(%d, f)" % n, [("write", "t0", "ival", (ge.INT, n + ps)), ("log", "info", ((ge.BOOL, ital),))]),
                    ("s3", "fonted(f)", [("log", "warning", ((ge.INT, 33),))])):
                tag = "e%d.%s" % (e, sender)
                L.append("      qvm::tag() = \"%s\"; qvm::put(\"\\\"ev\\\":\\\"begin\\\"\"); ui.%s->%s; qvm::put(\"\\\"ev\\\":\\\"end\\\"\");" % (tag, sender, call))
                want = []
                for x in exp:
                    if x[0] == "log":
                        want.append(("log", x[1], tuple(cxxrun.encode_expected(t, val) for t, val in x[2])))
                    else:
                        want.append(("write", x[1], x[2], cxxrun.encode_expected(*x[3])))
                emissions.append((tag, want))
            L.append("    }")
        L += ["    return 0;", "}"]
        cd = os.path.join(base, "g%d" % k)
        try:
            cxxrun.write_case(cd, r["ui"], r["header"], "\n".join(L) + "\n")
        except cxxmodel.UicError as e:
            v.inconc("mini-uic: %s" % e)
            continue
        ok, err = cxxrun.compile_case(cd)
        rp = {"qml": qml, "header": r["header"]}
        if ok is None:
            v.inconc("compiler timeout")
            continue
        if not ok:
            v.violation("does-not-compile", "support header with value-class handler parameters does not compile: %s" % err[-500:], dict(rp, compiler=err[-3000:]))
            continue
        status, events, serr = cxxrun.run_case(cd)
        if status != 0:
            v.violation("abnormal-exit-%s" % status, "driver for value-class handler parameters ended with %r: %s" % (status, serr[-300:]), rp)
            continue
        by_tag = {}
        for e in events:
            if e.get("ev") in ("begin", "end"):
                by_tag.setdefault(e.get("tag"), [])
            elif e.get("tag") in by_tag:
                by_tag[e["tag"]].append(e)
        for tag, want in emissions:
            got = [x for x in cbdoc.observed_trace(by_tag.get(tag, [])) if not (x[0] == "write" and x[2] == "font")]
            n_traces += 1
            if got != want:
                v.violation("trace:value-class-parameter", "emission %s: effects %r, source prescribes %r" % (tag, got, want), dict(rp, tag=tag))
                break
    return n_traces


def anonymous_senders(v, rng, base, n_rounds):
    """Handlers declared on objects WITHOUT id, next to anonymous look-alikes (component Btn1 next to Btn, QPushButton next to
    PushButton1): the handler must be connected to the object it is written in, identified here by its position in the tree."""
    from .. import doccheck, uiparse
    n = 0
    for k in range(n_rounds):
        d = os.path.join(base, "anon%d" % k)
        os.makedirs(d, exist_ok=True)
        stem = rng.choice(("Btn", "PushButton", "Go"))
        alikes = rng.sample([stem + x for x in ("", "1", "2", "11")], rng.randint(2, 3)) + ["QPushButton"]
        for a in alikes:
            if a != "QPushButton":
                with open(os.path.join(d, a + ".qml"), "w") as f:
                    f.write("import qmluic.QtWidgets\nQPushButton {}\n")
        seq = [rng.choice(alikes) for _ in range(rng.randint(3, 7))]
        lines = ["import qmluic.QtWidgets", "QWidget {", "    QVBoxLayout {"]
        tags = []
        for i, c in enumerate(seq):
            if rng.random() < 0.6:
                tags.append("h%d" % i)
                lines.append("        %s { onClicked: console.log(\"h%d\") }" % (c, i))
            else:
                tags.append(None)
                lines.append("        %s {}" % c)
        lines += ["    }", "}", ""]
        qml = "\n".join(lines)
        path = os.path.join(d, "Main.qml")
        with open(path, "w") as f:
            f.write(qml)
        out = common.translate([{"id": "a%d" % k, "source": "", "path": path, "type_name": "Main", "modes": ["generate"], "want": ["ui", "header"]}], tag="c13a")
        rs = out.results.get("a%d" % k)
        rp = {"qml": qml, "components": alikes}
        if not rs or rs[0].get("panic") or not doccheck.accepted(rs[0]):
            v.inconc("anonymous-sender document not translated: %r" % (rs[0].get("diagnostics") if rs else None))
            continue
        r = rs[0]
        rp["ui"], rp["header"] = r["ui"], r["header"]
        root = uiparse.parse(r["ui"])
        buttons = [nm for (t, nm, c, node) in uiparse.named_objects(root) if t == "widget" and c in alikes]
        if len(buttons) != len(seq):
            v.inconc("anonymous-sender document: %d buttons in the form, %d in the source" % (len(buttons), len(seq)))
            continue
        if len(set(buttons)) != len(buttons):
            dup = sorted({x for x in buttons if buttons.count(x) > 1})
            v.violation("sender-ambiguous", "two objects carry the name %r: the handler's connect(ui_->%s, ...) cannot denote the declaring object" % (dup, dup[0]), rp)
            continue
        L = ["#include \"qtmodel.h\"", "#include <QtDebug>", "#include \"ui_main.h\"", "#include \"uisupport_main.h\"", "int main() {", "    QWidget root;", "    Ui::Main ui;",
             "    ui.setupUi(&root);", "    UiSupport::Main sup(&root, &ui);", "    qvm::tag() = \"setup\";", "    sup.setup();"]
        for i, nm in enumerate(buttons):
            L.append("    qvm::tag() = \"p%d\"; qvm::put(\"\\\"ev\\\":\\\"begin\\\"\"); ui.%s->clicked(false); qvm::put(\"\\\"ev\\\":\\\"end\\\"\");" % (i, nm))
        L += ["    return 0;", "}"]
        try:
            cxxrun.write_case(d, r["ui"], r["header"], "\n".join(L) + "\n", type_name="Main")
        except cxxmodel.UicError as e:
            v.inconc("mini-uic: %s" % e)
            continue
        ok, err = cxxrun.compile_case(d)
        if not ok:
            if ok is None:
                v.inconc("compiler timeout")
            else:
                v.violation("does-not-compile", "support header with handlers on anonymous objects does not compile: %s" % err[-400:], dict(rp, compiler=err[-2000:]))
            continue
        status, events, serr = cxxrun.run_case(d)
        if status != 0:
            v.violation("abnormal-exit-%s" % status, "driver for anonymous senders ended with %r" % status, rp)
            continue
        logs = {}
        for e in events:
            if e.get("ev") == "log":
                logs.setdefault(e.get("tag"), []).append(e["items"])
        for i, tag in enumerate(tags):
            got = logs.get("p%d" % i, [])
            want = [[tag]] if tag else []
            n += 1
            if got != want:
                v.violation("trace:wrong-sender", "clicking the %s at position %d (named %s) logs %r, the source prescribes %r"
                            % (seq[i], i, buttons[i], got, want), rp)
                break
    return n


def regenerated_handlers_are_current(v, docs):
    """What a signal does is decided by the header on disk.  The documents of this check share one static tree and differ in their
    handlers only, so generating one over the outputs of another leaves the .ui byte-identical: the header must still be the one
    of the CURRENT source (compared with a generation into an empty directory)."""
    import subprocess
    wd = common.workdir("c13regen")
    env = dict(os.environ, NO_COLOR="1")
    cmd = [common.CLI, "generate-ui", "--foreign-types", common.METATYPES, "--foreign-types", common.VF_TYPES, "Form.qml"]
    n = 0
    for k in range(0, len(docs) - 1, 2):
        a, b = docs[k], docs[k + 1]
        hist, fresh = os.path.join(wd, "h%d" % k), os.path.join(wd, "f%d" % k)
        os.makedirs(hist)
        os.makedirs(fresh)
        open(os.path.join(hist, "Form.qml"), "w").write(a.source)
        p1 = subprocess.run(cmd, cwd=hist, capture_output=True, env=env, timeout=120)
        open(os.path.join(hist, "Form.qml"), "w").write(b.source)
        p2 = subprocess.run(cmd, cwd=hist, capture_output=True, env=env, timeout=120)
        open(os.path.join(fresh, "Form.qml"), "w").write(b.source)
        p3 = subprocess.run(cmd, cwd=fresh, capture_output=True, env=env, timeout=120)
        if p1.returncode or p2.returncode or p3.returncode:
            v.inconc("regeneration scenario refused: %s" % (p1.stderr + p2.stderr + p3.stderr).decode("utf-8", "replace")[-200:])
            continue
        n += 1
        on_disk, current = (open(os.path.join(x, "uisupport_form.h")).read() for x in (hist, fresh))
        if on_disk != current:
            v.violation("stale-handlers-after-edit", "only handler bodies were edited (the .ui stays byte-identical) and the source was generated "
                        "again: the support header on disk is not the code of the current handlers",
                        {"qml_before": a.source, "qml": b.source, "header_on_disk": on_disk, "header_of_current_source": current})
    return n


def run(tier, seed, replay=None):
    v = common.Verdict("C13", tier, seed)
    rng = common.rng_for(seed, "C13", tier)
    n_docs = 40 if tier == "quick" else 800
    n_cases = 8 if tier == "quick" else 24
    cxxmodel.ensure_model()
    docs = [cbdoc.CbDoc(rng, n_handlers=8, max_depth=rng.choice((2, 3))) for _ in range(n_docs)]
    if replay:
        rp = json.load(open(replay))
        docs = [d for d in docs if any(h.src == rp.get("handler") for h in d.handlers)]
        if not docs:
            raise common.HarnessError("replay case not regenerated (different seed/tier?)")
    results, rejected = translate_docs(docs, "c13")
    rej_msgs = {}
    for h, msgs in rejected:
        k = (msgs[0] if msgs else "?")[:70]
        rej_msgs[k] = rej_msgs.get(k, 0) + 1
    base = common.workdir("c13")
    work = []
    n_undefined = 0
    for i, (d, r) in enumerate(zip(docs, results)):
        if r is None:
            v.inconc("no translation result")
            continue
        if r.get("panic"):
            v.violation("panic", "translation panicked: %s" % r["panic"], {"qml": d.source})
            continue
        if not (r.get("built") and not r.get("has_error") and not r.get("has_syntax_error")) or not d.handlers:
            v.inconc("document still rejected: %r" % [x["message"] for x in r.get("diagnostics", [])][:2])
            continue
        cases = d.make_cases(n_cases)
        plan, expected = [], {}
        for ci, (st, args) in enumerate(cases):
            for hi, h in enumerate(d.handlers):
                params = {n: a for (n, _), a in zip(h.params, args[hi])}
                try:
                    eff, _ = ge.run_void(h.body, st, owner=h.sender, params=params)
                    expected[(ci, hi)] = cbdoc.expected_trace(eff)
                    plan.append((ci, hi))
                except ge.Undefined:
                    n_undefined += 1
        cd = os.path.join(base, "d%d" % i)
        try:
            cxxrun.write_case(cd, r["ui"], r["header"], cbdoc.driver(d, cases, plan))
            cbdoc.write_states(cd, cases)
        except cxxmodel.UicError as e:
            v.inconc("mini-uic: %s" % e)
            continue
        work.append((i, d, cd, cases, plan, expected, r))

    def build_and_run(item):
        i, d, cd, cases, plan, expected, r = item
        ok, err = cxxrun.compile_case(cd)
        if not ok:
            return item, ("compile", err)
        return item, ("run", cxxrun.run_case(cd))

    distinct = set()
    samples = []
    n_traces = n_events = n_connect_checked = 0
    with ThreadPoolExecutor(max_workers=common.NCPU) as ex:
        for item, (kind, payload) in ex.map(build_and_run, work):
            i, d, cd, cases, plan, expected, r = item
            if kind == "compile":
                if payload == "compiler timeout":
                    v.inconc("compiler timeout")
                else:
                    v.violation("does-not-compile", "support header does not compile against the API model: %s" % payload[-600:],
                                {"qml": d.source, "header": r["header"], "compiler": payload[-3000:]})
                continue
            status, events, err = payload
            # ---- wiring: exactly one connect per handler, to the overload with the most arguments
            connects = {}
            for e in events:
                if e.get("tag") == "setup" and e.get("ev") == "connect":
                    connects[(e["obj"], e["signal"])] = connects.get((e["obj"], e["signal"]), 0) + 1
            want = {}
            for h in d.handlers:
                want[(h.sender, d.expected_signal_id(h))] = want.get((h.sender, d.expected_signal_id(h)), 0) + 1
            n_connect_checked += len(want)
            if connects != want:
                missing = {k: n for k, n in want.items() if connects.get(k) != n}
                extra = {k: n for k, n in connects.items() if k not in want}
                v.violation("wiring", "connections made by setup() differ from the handlers declared: expected %r, extra %r"
                            % (missing, extra), {"qml": d.source, "header": r["header"], "expected": str(want), "observed": str(connects)})
                continue
            # ---- behaviour
            by_tag = {}
            open_tag = None
            for e in events:
                t = e.get("tag")
                if e.get("ev") == "begin":
                    open_tag = t
                    by_tag[t] = []
                elif e.get("ev") == "end":
                    open_tag = None
                elif t in by_tag:
                    by_tag[t].append(e)
            bad_doc = False
            for (ci, hi), exp in expected.items():
                tag = "c%d.h%d" % (ci, hi)
                h = d.handlers[hi]
                if tag not in by_tag or (open_tag == tag):
                    continue
                got = cbdoc.observed_trace(by_tag[tag])
                n_traces += 1
                n_events += len(got)
                if got != exp:
                    k = next((j for j, (a, b) in enumerate(zip(got, exp)) if a != b), min(len(got), len(exp)))
                    what = "extra-effect" if len(got) > len(exp) and got[:len(exp)] == exp else \
                        "missing-effect" if len(got) < len(exp) and exp[:len(got)] == got else "different-effect"
                    sig = "trace:" + what
                    if nul_cut_only(got, exp, h.src):
                        sig = "console-log-constant-nul-truncated"   # listed finding, matched on its exact prediction only
                    v.violation(sig, "handler %s.on%s with arguments %r: effect #%d is %r, source prescribes %r (%d vs %d effects)"
                                % (h.sender, h.signal, cases[ci][1][hi], k, got[k] if k < len(got) else None,
                                   exp[k] if k < len(exp) else None, len(got), len(exp)),
                                {"handler": h.src, "arguments": cases[ci][1][hi], "state": cases[ci][0], "expected": [str(x) for x in exp],
                                 "observed": [str(x) for x in got], "qml": d.source})
                    bad_doc = True
                    break
                if exp:
                    distinct.add(common.shash(h.src, len(exp)))
            if status != 0 and status != "timeout":
                what = {cxxrun.EXIT_UNREACHABLE: "unreachable-marker-reached", cxxrun.EXIT_OOB: "model-out-of-range",
                        cxxrun.EXIT_SANITIZER: "sanitizer-report"}.get(status, "abnormal-exit-%s" % status)
                if open_tag and open_tag.startswith("c"):
                    ci, hi = [int(x[1:]) for x in open_tag.split(".")]
                    h = d.handlers[hi]
                    v.violation(what, "defined run of handler %s.on%s ended abnormally (%s)" % (h.sender, h.signal, what),
                                {"handler": h.src, "arguments": cases[ci][1][hi], "state": cases[ci][0], "qml": d.source, "stderr": err[-3000:]})
                else:
                    v.inconc("driver ended with status %r outside a handler run: %s" % (status, err[-300:]))
                continue
            if status == "timeout":
                v.inconc("run timeout")
            if not bad_doc and len(samples) < 3:
                for (ci, hi), exp in expected.items():
                    h = d.handlers[hi]
                    if 2 <= len(exp) <= 5 and len(h.src) < 600 and h.form not in [s["form"] for s in samples]:
                        samples.append({"form": h.form, "handler": h.src, "signal": d.expected_signal_id(h), "arguments": cases[ci][1][hi],
                                        "trace": [str(x) for x in exp]})
                        break

    # ---- handlers that must be rejected
    neg_jobs = []
    base_doc = cbdoc.CbDoc(rng, n_handlers=0)
    for k, (sid, text, frag) in enumerate(cbdoc.NEGATIVE):
        neg_jobs.append({"id": "n%d" % k, "source": base_doc.to_qml(extra=(sid, text)), "modes": ["generate"], "want": []})
    negatives = list(cbdoc.NEGATIVE)
    for obj in cbdoc.NEGATIVE_OBJECTS:
        q = base_doc.to_qml().rstrip()
        assert q.endswith("}")
        neg_jobs.append({"id": "n%d" % len(neg_jobs), "source": q[:-1] + "    " + obj + "\n}\n", "modes": ["generate"], "want": []})
        negatives.append(("root", obj, "not supported"))
    out = common.translate(neg_jobs, tag="c13n")
    n_neg = 0
    for k, (sid, text, frag) in enumerate(negatives):
        rs = out.results.get("n%d" % k)
        if not rs:
            v.inconc("no result for negative case")
            continue
        r = rs[0]
        if r.get("built") and not r.get("has_error") and not r.get("has_syntax_error"):
            v.violation("accepted-bad-handler", "handler that must be rejected was accepted: %s" % text,
                        {"qml": neg_jobs[k]["source"], "handler": text})
        else:
            n_neg += 1
    n_vc = 0 if replay else value_class_parameters(v, rng, base, 2 if tier == "quick" else 12)
    n_anon = 0 if replay else anonymous_senders(v, rng, base, 12 if tier == "quick" else 40)
    n_regen = 0 if replay else regenerated_handlers_are_current(v, [w[1] for w in work][:8 if tier == "quick" else 40])
    feats = sorted(set().union(*[d.features for d in docs])) if docs else []
    v.assumptions = ["reference interpreter in statement mode (qv/gen_expr.py) gives the prescribed effect trace",
                     "API model: direct connections; every setter/slot/console call appends to one event log",
                     "at most one side-effecting call per statement; evaluation order between a call's receiver and its arguments is not judged"]
    return v.finish(
        evaluations=n_traces + n_neg, distinct_nontrivial=len(distinct),
        rule="handlers in every form (expression, block, function, arrow; 0..n leading parameters) on Qt and synthetic signals "
             "(default-argument families, up to 3 arguments, inherited signals); bodies are random void programs; each defined "
             "(state, arguments) tuple is emitted and its effect trace compared; distinct = distinct handler text with >= 1 effect",
        samples=samples, documents=len(work), handlers=sum(len(w[1].handlers) for w in work), traces_compared=n_traces, value_class_parameter_traces=n_vc, anonymous_sender_clicks=n_anon, regenerations_compared=n_regen,
        effect_events_compared=n_events, connections_checked=n_connect_checked, undefined_runs_skipped=n_undefined,
        handlers_rejected_by_qmluic=len(rejected), rejection_reasons=rej_msgs, bad_handlers_rejected=n_neg,
        shape_features_hit=len(feats), shape_features=feats, floor=50,
    )
