"""C09 — the .ui is well-formed, grammar-conformant XML that preserves strings."""
import json

from .. import regen, common, doccheck, strings, uiparse
from ..gen_doc import DocGen


def xml_text_normalised(s):
    """What an XML parser hands out for character data written raw (line-end normalisation)."""
    return s.replace("\r\n", "\n").replace("\r", "\n")


def xml_attr_normalised(s):
    """Same for a raw attribute value (line ends, then white space -> blank)."""
    return xml_text_normalised(s).replace("\n", " ").replace("\t", " ")


def make_docs(rng, n):
    docs = []
    for i in range(n):
        g = DocGen(rng, hostile_strings=True, adversarial_names=False, dynamic=0.0, callbacks=0.0,
                   max_depth=rng.choice((3, 4, 5)), max_fanout=rng.choice((3, 5)), max_objects=rng.choice((6, 15, 30)),
                   max_bindings=rng.choice((3, 6, 12)), allow_controls=(i % 5 == 4), allow_cr=True)
        d = g.make(type_name=rng.choice(("MyType", "Form", "Dialog_2", "X", "SettingsDialog")))
        d.has_controls = (i % 5 == 4)
        docs.append(d)
    return docs


SPELLINGS = strings.SPELLED_LITERALS


def cli_reruns(v, rng, docs, tier):
    """Several sources in one invocation, run again unchanged, run again after editing one of them: every .ui on disk must be a
    well-formed document of its own source after every run (the in-process route cannot see state kept between sources or runs)."""
    import os
    import subprocess
    wd = common.workdir("c09cli")
    # documents holding characters XML cannot carry are the listed finding's business, not this part's
    plain = [d for d in docs if all(strings.xml_carriable(x) for b in d.scalar_bindings() for (x, _) in b.strings)][:400]
    n_forms = 0
    for k in range(4 if tier == "quick" else 30):
        pd = os.path.join(wd, "p%d" % k)
        os.makedirs(pd)
        names = ["First", "Second", "Third", "Fourth"][:rng.randint(2, 4)]
        srcs = {n: rng.choice(plain).source for n in names}
        for n, t in srcs.items():
            open(os.path.join(pd, n + ".qml"), "w").write(t)
        for run in ("fresh", "unchanged", "edit-last", "edit-first", "unchanged-again"):
            if run.startswith("edit"):
                n = names[-1] if run == "edit-last" else names[0]
                srcs[n] = rng.choice(plain).source
                open(os.path.join(pd, n + ".qml"), "w").write(srcs[n])
            opts = ["--no-dynamic-binding"] if (k % 2 == 1) else []      # these documents have no dynamic bindings
            p = subprocess.run([common.CLI, "generate-ui", "--foreign-types", common.METATYPES, "--foreign-types", common.VF_TYPES] + opts
                               + [n + ".qml" for n in names], cwd=pd, capture_output=True, env=dict(os.environ, NO_COLOR="1"), timeout=300)
            if p.returncode != 0:
                break      # a generated document qmluic refuses: nothing to say here (C04/C05)
            for n in names:
                ui = open(os.path.join(pd, n.lower() + ".ui"), "rb").read().decode("utf-8", "replace")
                rp = {"sources": {x: srcs[x] for x in names}, "run": run, "file": n.lower() + ".ui", "ui": ui[:4000]}
                try:
                    root = uiparse.parse(ui)
                except uiparse.UiSyntaxError as e:
                    v.violation("ill-formed", "%s after the %s run of a %d-source invocation is rejected by expat: %s" % (n.lower() + ".ui", run, len(names), e), rp)
                    break
                n_forms += 1
                cls = root.find("class")
                if root.tag != "ui" or cls is None or cls.text != n:
                    v.violation("class", "%s after the %s run: root <%s>, <class> %r (type name %s)" % (n.lower() + ".ui", run, root.tag, cls.text if cls is not None else None, n), rp)
                    break
    return n_forms


def spelled_literals(v, rng, pools, distinct):
    sites = ('QLabel { text: %s }', 'QLabel { text: qsTr(%s) }', 'QComboBox { model: [%s, "z"] }', 'QLabel { toolTip: "<" + %s }')
    docs, meta = [], []
    for sp, den in SPELLINGS:
        for site in sites:
            if "\x0b" in den or "\x0c" in den or "\x08" in den:
                continue   # characters XML cannot carry: covered by the listed finding, not by this table
            qml = "import qmluic.QtWidgets\nQWidget {\n    QVBoxLayout {\n        %s\n    }\n}\n" % (site % sp)
            docs.append({"id": "s%d" % len(docs), "source": qml, "modes": ["generate"], "want": ["ui"]})
            meta.append((sp, den, site, qml))
    out = common.translate(docs, tag="c09s")
    n = 0
    for j, (sp, den, site, qml) in zip(docs, meta):
        rs = out.results.get(j["id"])
        if not rs or rs[0].get("panic") or not doccheck.accepted(rs[0]):
            pools["spelling-rejected"] = pools.get("spelling-rejected", 0) + 1
            continue
        want = ("<" + den) if "toolTip" in site else den
        try:
            root = uiparse.parse(rs[0]["ui"])
        except uiparse.UiSyntaxError as e:
            v.violation("ill-formed", "spelled literal %s: .ui rejected by expat: %s" % (sp, e), {"qml": qml, "ui": rs[0]["ui"]})
            continue
        texts = [x.text for x in root.walk() if x.tag == "string"]
        n += 1
        pools["spelling-accepted"] = pools.get("spelling-accepted", 0) + 1
        distinct.add(("spelling", sp, site))
        if want not in texts:
            v.violation("string-readback", "literal spelled %s denotes %r, the .ui holds %r" % (sp, want, texts),
                        {"qml": qml, "ui": rs[0]["ui"], "expected": want, "observed": texts})
    return n


def run(tier, seed, replay=None):
    v = common.Verdict("C09", tier, seed)
    rng = common.rng_for(seed, "C09", tier)
    n = 1200 if tier == "quick" else 8000
    docs = make_docs(rng, n)
    if replay:
        rp = json.load(open(replay))
        docs = [d for d in docs if d.source == rp.get("qml")]
        if not docs:
            raise common.HarnessError("replay case not regenerated (different seed/tier?)")
    res, out = doccheck.translate_docs(docs, modes=("generate", "omit"), want=("ui", "ui_compact"), tag="c09")
    n_acc = n_rej = n_strings = n_ctrl_docs = 0
    pools = {}
    distinct = set()
    samples = []
    rejected_msgs = {}
    for d, r in zip(docs, res):
        if r is None:
            v.inconc("no result")
            continue
        g = r["generate"][0]
        if g.get("panic"):
            v.inconc("panic (C07's business): %s" % g["panic"])
            continue
        if not doccheck.accepted(g):
            n_rej += 1
            for dg in g.get("diagnostics", [])[:1]:
                rejected_msgs[dg["message"][:60]] = rejected_msgs.get(dg["message"][:60], 0) + 1
            continue
        n_acc += 1
        all_strings = [(b, s, pool) for b in d.scalar_bindings() for (s, pool) in b.strings]
        unrepresentable = [s for (_, s, _) in all_strings if not strings.xml_carriable(s)]
        if unrepresentable:
            n_ctrl_docs += 1
        # both serialisations (pretty for generate-ui, compact for preview) must be well-formed
        roots = {}
        bad = False
        for which, text in (("pretty", g.get("ui")), ("compact", r["omit"][0].get("ui_compact"))):
            if text is None:
                continue
            try:
                roots[which] = uiparse.parse(text)
            except uiparse.UiSyntaxError as e:
                ch = getattr(e, "char", None)
                # the listed finding: a character XML 1.0 cannot carry is written raw; anything else is new
                sig = "ill-formed-unrepresentable-char" if (unrepresentable and ch and not strings.xml_carriable(ch)) else "ill-formed"
                v.violation(sig, "%s .ui rejected by expat: %s%s" % (
                    which, e, " (document holds characters XML 1.0 cannot carry: %r)" % unrepresentable[:3] if unrepresentable else ""),
                    {"qml": d.source, "ui": text, "error": str(e), "unrepresentable": unrepresentable[:5]})
                bad = True
                break
        if bad or "pretty" not in roots:
            continue
        root = roots["pretty"]
        cls = root.find("class")
        if cls is None or cls.text != d.type_name:
            v.violation("class", "<class> is %r, type name %r" % (cls.text if cls is not None else None, d.type_name),
                        {"qml": d.source, "ui": g["ui"]})
            continue
        ga = uiparse.grammar_alarms(root)
        if ga:
            v.violation("grammar:" + ga[0].split(" ")[0][:24], "grammar: %s" % ga[0], {"qml": d.source, "ui": g["ui"], "alarms": ga})
            continue
        mapping, alarms = doccheck.match_tree(d, root)
        if alarms:
            v.inconc("tree mismatch (C11's business): %s" % alarms[0][1])
            continue
        # names and classes read back
        for o, e in mapping.items():
            if o.id is not None and e.attrs.get("name") != o.id:
                v.violation("name-readback", "id %r reads back as %r" % (o.id, e.attrs.get("name")), {"qml": d.source, "ui": g["ui"]})
        # strings read back (pretty and compact)
        for which, rt in roots.items():
            mp = mapping if which == "pretty" else doccheck.match_tree(d, rt)[0]
            for b in d.scalar_bindings():
                if not b.strings or b.vkind != "const":
                    continue
                st, exp, got = doccheck.surface_of(b, mp)
                if st == "n/a":
                    continue
                carri = all(strings.xml_carriable(s) for s, _ in b.strings)
                for s, pool in b.strings:
                    n_strings += 1
                    pools[pool] = pools.get(pool, 0) + 1
                    distinct.add((pool, s, ".".join(b.path)))
                if st != "ok":
                    if not carri:
                        continue  # only well-formedness-or-rejection is asserted for these
                    sig = "string-readback"
                    # listed findings are matched only when the observation is exactly what they predict
                    if exp and exp[0] == "string" and got and got[0] == "string" and got[2] == exp[2] \
                            and "\r" in exp[1] and got[1] == xml_text_normalised(exp[1]):
                        sig = "string-readback-cr"
                    elif exp and exp[0] in ("attr", "child", "pixmap") and isinstance(got, (str, tuple)):
                        g1 = got if isinstance(got, str) else got[1]
                        e1 = exp[2] if exp[0] in ("attr", "child") else exp[1]
                        if exp[0] == "attr" and any(c in e1 for c in "\r\n\t") and g1 == xml_attr_normalised(e1):
                            sig = "string-readback-attribute-whitespace"
                        elif exp[0] != "attr" and "\r" in e1 and g1 == xml_text_normalised(e1):
                            sig = "string-readback-cr"
                    elif exp and exp[0] == "stringlist" and got and got[0] == "stringlist" and got[2] == exp[2] \
                            and any("\r" in x for x in exp[1]) and list(got[1]) == [xml_text_normalised(x) for x in exp[1]]:
                        sig = "string-readback-cr"
                    elif isinstance(exp, list) and isinstance(got, list) and len(exp) == len(got) \
                            and any("\r" in x[0] for x in exp) \
                            and got == [(xml_text_normalised(x[0]), x[1]) for x in exp]:
                        sig = "string-readback-cr"   # model items
                    v.violation(sig, "%s .ui: binding %s of %s reads back as %r, source value %r (%s)" % (
                        which, ".".join(b.path), b.owner.name_hint(), got, exp, st),
                        {"qml": d.source, "ui": g["ui"], "binding": ".".join(b.path), "expected": exp, "observed": got})
                elif len(samples) < 5 and pool not in [x.get("pool") for x in samples] and pool != "plain":
                    samples.append({"pool": pool, "binding": "%s.%s" % (b.owner.cls, ".".join(b.path)), "source": b.src,
                                    "denotes": s, "read_back_equal": True})
    n_spelled = spelled_literals(v, rng, pools, distinct)
    n_cli_forms = cli_reruns(v, rng, docs, tier)
    total = n_acc + n_rej
    if total and n_rej > 0.25 * total:
        v.inconc("generator produced %d rejected documents of %d: %r" % (n_rej, total, rejected_msgs))
    v.assumptions = ["expat (xml.parsers.expat) as independent XML 1.0 parser",
                     "grammar table qv/uiparse.py transcribed from Qt's ui4.xsd, restricted to what qmluic can emit",
                     "for strings holding characters XML 1.0 cannot carry only well-formedness-or-rejection is asserted"]
    # a string edited into another one of the same encoded length, generated over the previous outputs
    _w = regen.HEAD + "QWidget {\n    windowTitle: %s\n    QLabel { text: %s }\n}\n"
    n_hist = 0 if replay else regen.regenerated_equals_fresh(v, "c09hist", [
        (_w % ('"a<b"', '"x"'), _w % ('"a>b"', '"x"')), (_w % ('"one"', 'qsTr("two")'), _w % ('"two"', 'qsTr("one")')),
        (_w % ('"a\\tb"', '"é"'), _w % ('"a\\nb"', '"è"')), (_w % ('"long long text"', '"x"'), _w % ('"short"', '"x"')),
    ], "stale-string-after-edit", "a string edited")
    return v.finish(
        histories_on_disk=n_hist, evaluations=total, distinct_nontrivial=len(distinct),
        rule="documents with hostile strings (markup, quotes, blanks, line breaks, CR, non-ASCII, astral; a flagged fifth with "
             "characters XML 1.0 cannot carry) in every string-bearing position; distinct = distinct (pool, string, binding path)",
        samples=samples, accepted=n_acc, rejected=n_rej, rejected_reasons=rejected_msgs, strings_read_back=n_strings, cli_forms_reparsed_over_reruns=n_cli_forms,
        strings_by_pool=pools, documents_with_unrepresentable_chars=n_ctrl_docs, floor=100,
    )
