"""C15 — generate-ui writes only where it should, atomically, and only when needed."""
import hashlib
import json
import os
import re
import shutil
import subprocess
from concurrent.futures import ThreadPoolExecutor

from .. import common

TRACE = "openat,open,creat,write,pwrite64,writev,rename,renameat,renameat2,unlink,unlinkat,mkdir,mkdirat,rmdir,chmod,fchmod,fchmodat," \
        "link,linkat,symlink,symlinkat,truncate,ftruncate,copy_file_range,sendfile"
STATIC_QML = "import qmluic.QtWidgets\nQWidget {\n    windowTitle: \"%s\"\n    QVBoxLayout { QLabel { text: qsTr(\"%s\") } }\n}\n"
DYNAMIC_QML = ("import qmluic.QtWidgets\nQWidget {\n    windowTitle: \"%s\"\n    QCheckBox { id: chk }\n"
               "    QLabel { enabled: chk.checked; text: chk.checked ? \"%s\" : \"off\" }\n}\n")
ERROR_QML = "import qmluic.QtWidgets\nQWidget {\n    windowTitle: %s\n    noSuchProperty: 1\n}\n"
ENV = dict(os.environ, NO_COLOR="1")


def cli_args(extra):
    return [common.CLI, "generate-ui", "--foreign-types", common.METATYPES, "--foreign-types", common.VF_TYPES] + extra


def snapshot(root):
    out = {}
    for dp, dns, fns in os.walk(root):
        for fn in fns:
            p = os.path.join(dp, fn)
            st = os.lstat(p)
            with open(p, "rb") as f:
                h = hashlib.sha256(f.read()).hexdigest()
            out[os.path.relpath(p, root)] = (st.st_ino, st.st_mtime_ns, st.st_mode & 0o777, h)
        for dn in dns:
            out[os.path.relpath(os.path.join(dp, dn), root) + "/"] = ("dir",)
    return out


def expected_outputs(source, type_stem, outdir, lowercase, dynamic):
    """Relative output paths for one source per the property text."""
    d = os.path.dirname(source)
    stem = type_stem.lower() if lowercase else type_stem
    files = [os.path.join(d, stem + ".ui")]
    if dynamic:
        files.append(os.path.join(d, ("uisupport_%s.h" % type_stem).lower() if lowercase else "uisupport_%s.h" % type_stem))
    if outdir is not None:
        files = [os.path.join(outdir, f) for f in files]
    return [os.path.normpath(f) for f in files]


def parse_strace(text, cwd):
    """-> list of (syscall, args string, result string, mutated paths, fd or None) in order."""
    events = []
    pending = {}
    for line in text.splitlines():
        m = re.match(r"^(\d+)\s+(.*)$", line)
        pid, rest = (m.group(1), m.group(2)) if m else ("0", line)
        if rest.endswith("<unfinished ...>"):
            pending[pid] = rest[:-len("<unfinished ...>")]
            continue
        rm = re.match(r"^<\.\.\. (\w+) resumed>(.*)$", rest)
        if rm and pid in pending:
            rest = pending.pop(pid) + rm.group(2)
        m = re.match(r"^(\w+)\((.*)\)\s+= (.+)$", rest)
        if not m:
            continue
        name, args, res = m.group(1), m.group(2), m.group(3)
        paths = [bytes(p, "utf-8").decode("unicode_escape").encode("latin-1").decode("utf-8", "replace")
                 for p in re.findall(r'"((?:[^"\\]|\\.)*)"', args)]
        fd = None
        fm = re.match(r"^(\d+)[,)]", args + ")")
        if fm and name in ("write", "pwrite64", "writev", "fchmod", "ftruncate"):
            fd = int(fm.group(1))
        events.append((name, args, res, [os.path.normpath(os.path.join(cwd, p)) for p in paths], fd))
    return events


def mutating(ev):
    name, args, res, paths, fd = ev
    if name in ("openat", "open", "creat"):
        return bool(re.search(r"O_CREAT|O_WRONLY|O_RDWR|O_TRUNC|O_APPEND", args)) or name == "creat"
    if name in ("write", "pwrite64", "writev"):
        return fd not in (1, 2)
    return name not in ("write",)


def run_traced(cwd, extra, inject=None, log="strace.log"):
    logp = os.path.join(cwd, "..", log)
    cmd = ["strace", "-f", "-qq", "-s", "4096", "-e", "trace=" + TRACE, "-o", logp]
    if inject:
        cmd += ["-e", "inject=" + inject]
    try:
        p = subprocess.run(cmd + cli_args(extra), cwd=cwd, capture_output=True, timeout=120, env=ENV)
    except subprocess.TimeoutExpired:
        return None, "", []
    text = open(logp, errors="replace").read() if os.path.exists(logp) else ""
    return p.returncode, p.stderr.decode("utf-8", "replace"), parse_strace(text, cwd)


def check_trace(v, events, cwd, allowed_files, allowed_dirs, rp):
    """Every mutating syscall touches only expected outputs, their temp siblings or parent directories being created."""
    ok = True
    for ev in events:
        if not mutating(ev):
            continue
        name, args, res, paths, fd = ev
        if name in ("write", "pwrite64", "writev", "fchmod", "ftruncate", "copy_file_range", "sendfile"):
            continue   # by descriptor: the descriptor was vetted when it was opened
        if res.startswith("-1") and name not in ("rename", "renameat", "renameat2"):
            continue
        for p in paths:
            d = os.path.dirname(p)
            base = os.path.basename(p)
            fine = p in allowed_files or (d in allowed_dirs and re.fullmatch(r"\.tmp\w+", base)) \
                or (name in ("mkdir", "mkdirat") and (p in allowed_dirs or any(a.startswith(p + os.sep) for a in allowed_dirs)))
            if not fine:
                v.violation("write-outside:" + name, "%s touches %s, which is neither an expected output, a temp sibling nor a created parent directory"
                            % (name, os.path.relpath(p, cwd)), dict(rp, syscall="%s(%s) = %s" % (name, args, res)))
                ok = False
    return ok


def make_project(base, name, files):
    d = os.path.join(base, name)
    shutil.rmtree(d, ignore_errors=True)
    for rel, content in files.items():
        p = os.path.join(d, "w", rel)
        os.makedirs(os.path.dirname(p), exist_ok=True)
        with open(p, "w") as f:
            f.write(content)
    return os.path.join(d, "w")


def run(tier, seed, replay=None):
    v = common.Verdict("C15", tier, seed, level="fault_enumeration")
    rng = common.rng_for(seed, "C15", tier)
    base = common.workdir("c15")
    n_inv = 0
    shapes = set()
    samples = []
    probe = subprocess.run(["strace", "-qq", "-e", "trace=write", "-o", "/dev/null", "true"], capture_output=True)
    have_strace = probe.returncode == 0
    if not have_strace:
        v.inconc("strace cannot attach here: syscall observation and crash-point enumeration skipped (%s)" % probe.stderr.decode()[-200:])

    # ------------------------------------------------------------------ path shapes x options
    # systematic part: every shape x {no -O, -O out, -O nested} and every escaping spelling; then random combinations
    SHAPES = ("plain", "dot", "dotdot-inside", "absolute", "two-sources", "escape", "symlink-source")
    ESCAPES = ("../outside/Esc.qml", "sub/../../outside/Esc.qml", "./../outside/Esc.qml", "sub/./../../outside/Esc.qml",
               "a/b/../../../outside/Esc.qml")
    grid = [(sh, od, None) for sh in SHAPES if sh != "escape" for od in (None, "out", "build/gen")]
    grid += [("escape", od, e) for e in ESCAPES for od in ("out", "build/gen")]
    n_shapes = len(grid) + (12 if tier == "quick" else 150)
    stems = ["Main", "settingsDialog", "X", "Form_2", "MyäPp", "MAINWINDOW", "a.b", "Login.ui", "Wizard.Intro"]
    stem_off = rng.randrange(len(stems))
    for k in range(n_shapes):
        # every stem meets several shapes in every run (the grid has more entries than there are stems and their number is no
        # multiple of the number of stems); the rest is drawn at random
        stem = stems[(k * 4 + stem_off) % len(stems)] if k < len(grid) else rng.choice(stems)
        sub = rng.choice(("", "ui", "a/b", "Sub Dir"))
        src_rel = os.path.join(sub, stem + ".qml")
        if k < len(grid):
            shape, outdir, esc = grid[k]
        else:
            shape, outdir, esc = rng.choice(SHAPES), rng.choice((None, "out", "build/gen", "out")), rng.choice(ESCAPES)
        if shape == "dotdot-inside" and (not sub or "/" in sub or " " in sub):
            sub = "ui"
            src_rel = os.path.join(sub, stem + ".qml")
        lowercase = rng.random() < 0.7
        dynamic = rng.random() < 0.6
        body = (DYNAMIC_QML if dynamic and rng.random() < 0.5 else STATIC_QML) % ("t%d" % k, "x")
        files = {src_rel: body}
        sources = [src_rel]
        link_target = None
        if shape == "symlink-source":
            # X.qml is a symbolic link to a file with another stem kept elsewhere (a chosen variant, a content-addressed store):
            # the outputs are named after the source the user passed
            link_target = rng.choice(("store/Impl_v2.variant", "store/0a1b2c.qml", "variants/Desktop.qml"))
            files = {link_target: body}
        if shape == "dot":
            sources = ["./" + src_rel]
        elif shape == "dotdot-inside":
            sources = [os.path.join(sub or ".", "..", sub or ".", stem + ".qml")] if sub and "/" not in sub and " " not in sub else [src_rel]
            if sources[0] == src_rel:
                shape = "plain"
        elif shape == "two-sources":
            # the second source shares everything up to the first dot with the first one, if there is a dot
            other = (stem.split(".")[0] + ".Other.qml") if "." in stem else "Other.qml"
            files[os.path.join(sub, other)] = STATIC_QML % ("o", "y")
            sources = [src_rel, os.path.join(sub, other)]
        w = make_project(base, "s%d" % k, files)
        if link_target:
            os.makedirs(os.path.dirname(os.path.join(w, src_rel)), exist_ok=True)
            os.symlink(os.path.relpath(os.path.join(w, link_target), os.path.dirname(os.path.join(w, src_rel))), os.path.join(w, src_rel))
        if shape == "absolute":
            sources = [os.path.join(w, src_rel)]
        elif shape == "escape":
            # a source outside the working directory, named through ..
            os.makedirs(os.path.join(w, "..", "outside"), exist_ok=True)
            with open(os.path.join(w, "..", "outside", "Esc.qml"), "w") as f:
                f.write(STATIC_QML % ("e", "z"))
            sources = [esc or rng.choice(ESCAPES)]
            os.makedirs(os.path.join(w, "sub"), exist_ok=True)
            os.makedirs(os.path.join(w, "a", "b"), exist_ok=True)
        extra = (["-O", outdir] if outdir else []) + ([] if dynamic else ["--no-dynamic-binding"]) + ([] if lowercase else ["--no-lowercase-file-name"]) + sources
        before = snapshot(os.path.join(w, ".."))
        rp = {"files": files, "args": extra, "shape": shape}
        if have_strace:
            st, err, events = run_traced(w, extra)
        else:
            p = subprocess.run(cli_args(extra), cwd=w, capture_output=True, env=ENV, timeout=120)
            st, err, events = p.returncode, p.stderr.decode("utf-8", "replace"), []
        n_inv += 1
        after = snapshot(os.path.join(w, ".."))
        new = {p for p in after if p not in before and not p.endswith("/") and not p.startswith("strace")}
        changed = {p for p in after if p in before and after[p] != before[p] and not p.startswith("strace")}
        must_refuse = outdir is not None and shape in ("absolute", "escape")
        if outdir is not None and shape == "dotdot-inside" and st == 1 and not new and not changed:
            continue   # a non-escaping dir/../dir path may be refused as well; refusing is always safe
        shapes.add((shape, outdir is not None, lowercase, dynamic))
        if st not in (0, 1):
            v.violation("exit-status", "exit status %r" % st, dict(rp, stderr=err[-1000:]))
            continue
        if must_refuse:
            if st == 0 or new or changed:
                v.violation("escaping-source-accepted", "source path %r accepted with --output-directory (status %s, new files %r)"
                            % (sources, st, sorted(new)), dict(rp, stderr=err[-1000:]))
            continue
        if st != 0:
            v.violation("valid-invocation-failed", "invocation failed: %s" % err[-300:], dict(rp, stderr=err[-1000:]))
            continue
        exp = set()
        for s in sources:
            s_rel = os.path.relpath(os.path.join(w, s), w) if os.path.isabs(s) else s
            tstem = os.path.splitext(os.path.basename(s))[0]
            if os.path.isabs(s) and outdir is None:
                outs = expected_outputs(s, tstem, None, lowercase, dynamic)
                exp.update(os.path.relpath(o, os.path.join(w, "..")) for o in outs)
            else:
                for o in expected_outputs(s_rel, tstem, outdir, lowercase, dynamic):
                    exp.add(os.path.normpath(os.path.join("w", o)))
        if new != exp or changed:
            v.violation("outputs-differ", "new files %r, expected exactly %r (changed existing: %r)" % (sorted(new), sorted(exp), sorted(changed)), rp)
            continue
        if have_strace:
            allowed_files = {os.path.normpath(os.path.join(w, "..", e)) for e in exp}
            allowed_dirs = {os.path.dirname(f) for f in allowed_files}
            check_trace(v, events, w, allowed_files, allowed_dirs, rp)
        # re-run on unchanged inputs: outputs untouched
        mid = snapshot(os.path.join(w, ".."))
        p = subprocess.run(cli_args(extra), cwd=w, capture_output=True, env=ENV, timeout=120)
        n_inv += 1
        again = snapshot(os.path.join(w, ".."))
        touched = {q for q in exp if again.get(q) != mid.get(q)}
        if p.returncode != 0 or touched:
            v.violation("rerun-touches-outputs", "re-run on unchanged inputs: status %s, touched %r" % (p.returncode, sorted(touched)), rp)
        if len(samples) < 2 and outdir and shape in ("plain", "two-sources"):
            samples.append({"args": extra, "new_files": sorted(new), "mutating_syscalls": ["%s %s" % (e[0], e[1][:70]) for e in events if mutating(e)][:12]})

    # ------------------------------------------------------------------ edit / regenerate histories
    # After every successful step the outputs must be exactly what a fresh generation of the current source with the current
    # options writes into an empty directory (same binary), and an output whose bytes did not change keeps inode and mtime.
    STEPS = ("regenerate", "touch", "edit-constant", "edit-dynamic", "edit-callback", "introduce-error", "delete-header", "delete-ui",
             "toggle-no-dynamic", "make-static", "make-dynamic", "chmod-outputs", "chmod-source", "edit-dependency")
    n_hist = 8 if tier == "quick" else 80
    for k in range(n_hist):
        opts_o = rng.choice(([], [], ["-O", "out"]))
        cur = {"title": "v0", "dyn": "a", "cb": "x", "static": False, "dep": "QSpinBox"}

        def text_of_cur():
            if cur["static"]:
                return STATIC_QML % (cur["title"], cur["dyn"])
            # the form also depends on a sibling component file (Gauge.qml) whose root class may change under it
            return ("import qmluic.QtWidgets\nQWidget {\n    windowTitle: \"%s\"\n    QCheckBox { id: chk; onToggled: console.log(\"%s\") }\n"
                    "    Gauge { id: level }\n    QLabel { enabled: chk.checked; text: chk.checked ? \"%s\" : \"off\"; visible: level.value >= level.value }\n}\n"
                    % (cur["title"], cur["cb"], cur["dyn"]))

        def gauge():
            return "import qmluic.QtWidgets\n%s {}\n" % cur["dep"]
        w = make_project(base, "h%d" % k, {"Form.qml": text_of_cur(), "Gauge.qml": gauge()})
        outdir = os.path.join(w, opts_o[1]) if opts_o else w
        outs = ["form.ui", "uisupport_form.h"]
        nodyn = False
        # the first steps are drawn systematically so that every step kind follows a generation at least once per run
        plan = ["regenerate", STEPS[(k * 2 + 1) % len(STEPS)], STEPS[(k * 2 + 2) % len(STEPS)]] + [rng.choice(STEPS) for _ in range(5)]
        src = os.path.join(w, "Form.qml")
        broken = False
        for step, kind in enumerate(plan):
            if kind == "touch":
                os.utime(src)
            elif kind == "edit-constant":
                cur["title"] = "v%d" % (step + 1)
            elif kind == "edit-dynamic":
                cur["dyn"] = "b%d" % step
            elif kind == "edit-callback":
                cur["cb"] = "c%d" % step
            elif kind == "make-static":
                cur["static"] = True
            elif kind == "make-dynamic":
                cur["static"] = False
            elif kind == "toggle-no-dynamic":
                nodyn = not nodyn
            elif kind == "edit-dependency":
                cur["dep"] = "QDoubleSpinBox" if cur["dep"] == "QSpinBox" else "QSpinBox"
                open(os.path.join(w, "Gauge.qml"), "w").write(gauge())      # the source itself is not touched
            elif kind == "chmod-outputs":
                # the build tree was made read-only / a checkout flipped a mode bit: the content is still up to date
                for o in outs:
                    if os.path.exists(os.path.join(outdir, o)):
                        os.chmod(os.path.join(outdir, o), rng.choice((0o444, 0o600, 0o664, 0o755)))
            elif kind == "chmod-source":
                os.chmod(src, rng.choice((0o444, 0o600, 0o664, 0o755, 0o644)))
            elif kind in ("delete-header", "delete-ui"):
                victim = os.path.join(outdir, outs[1] if kind == "delete-header" else outs[0])
                if os.path.exists(victim):
                    os.unlink(victim)
            if kind == "introduce-error":
                open(src, "w").write(ERROR_QML % "\"e\"")
                broken = True
            elif kind not in ("touch", "chmod-outputs", "chmod-source", "edit-dependency"):
                if not os.access(src, os.W_OK):
                    os.chmod(src, 0o644)
                open(src, "w").write(text_of_cur())
                broken = False
            opts = opts_o + (["--no-dynamic-binding"] if nodyn else [])
            expect_error = broken or (nodyn and not cur["static"])
            before = snapshot(w)
            p = subprocess.run(cli_args(opts + ["Form.qml"]), cwd=w, capture_output=True, env=ENV, timeout=120)
            n_inv += 1
            after = snapshot(w)
            rel = (opts_o[1] + "/") if opts_o else ""
            rp = {"history": plan[:step + 1], "options": opts, "source": open(src).read(), "stderr": p.stderr.decode("utf-8", "replace")[-500:]}
            shapes.add(("history", kind, bool(opts_o), nodyn))
            if expect_error:
                changed = [o for o in outs if after.get(rel + o) != before.get(rel + o)]
                if p.returncode != 1 or changed:
                    v.violation("error-run-wrote", "erroneous run (step %s): status %s, outputs changed: %r" % (kind, p.returncode, changed), rp)
                continue
            if p.returncode != 0:
                v.violation("valid-invocation-failed", "history step %s failed: %s" % (kind, p.stderr.decode()[-200:]), rp)
                continue
            # reference: the same source and options in an empty directory
            ref = make_project(base, "href%d" % k, {"Form.qml": open(src).read(), "Gauge.qml": gauge()})
            subprocess.run(cli_args(opts + ["Form.qml"]), cwd=ref, capture_output=True, env=ENV, timeout=120)
            n_inv += 1
            refdir = os.path.join(ref, opts_o[1]) if opts_o else ref
            for o in outs:
                rpath, opath = os.path.join(refdir, o), os.path.join(outdir, o)
                want = open(rpath, "rb").read() if os.path.exists(rpath) else None
                got = open(opath, "rb").read() if os.path.exists(opath) else None
                if want is not None and got is None:
                    v.violation("output-missing", "%s is missing after step %s although the run exited 0 (a fresh generation writes it)" % (o, kind), rp)
                elif want is not None and got != want:
                    v.violation("output-stale", "%s differs from a fresh generation of the current source after step %s" % (o, kind), rp)
                # (a header left over from an earlier revision when the current run writes none is not judged: the property
                # speaks about what is created, not about removal)
                b, a = before.get(rel + o), after.get(rel + o)
                if b is not None and a is not None and b[3] == a[3] and b[:2] != a[:2]:
                    v.violation("unchanged-output-rewritten", "%s has the same bytes but a new inode/mtime after %s" % (o, kind), rp)

    # ------------------------------------------------------------------ crash points and I/O faults (enumerated)
    n_proj = 4 if tier == "quick" else 40
    crash_points = errors_injected = 0
    if have_strace:
        jobs = []
        for k in range(n_proj):
            opts = rng.choice(([], ["-O", "out"], ["-O", "deep/er"]))
            old_src = DYNAMIC_QML % ("old%d" % k, "o")
            new_src = DYNAMIC_QML % ("new%d" % k, "n" * rng.choice((1, 50, 5000)))
            # reference contents; every second project is a FIRST generation (no old outputs: "old" is "absent")
            first = (k % 2 == 1)
            ref = make_project(base, "r%d" % k, {"Form.qml": new_src if first else old_src})
            outdir = os.path.join(ref, opts[1]) if opts else ref
            if first:
                old = {o: None for o in ("form.ui", "uisupport_form.h")}
            else:
                subprocess.run(cli_args(opts + ["Form.qml"]), cwd=ref, capture_output=True, env=ENV, timeout=120)
                old = {o: open(os.path.join(outdir, o), "rb").read() for o in ("form.ui", "uisupport_form.h")}
            open(os.path.join(ref, "Form.qml"), "w").write(new_src)
            st, err, events = run_traced(ref, opts + ["Form.qml"], log="dry.log")
            newc = {o: open(os.path.join(outdir, o), "rb").read() for o in ("form.ui", "uisupport_form.h")}
            # enumerate: every mutating syscall of the dry run, by (name, index among calls of that name)
            counts = {}
            points = []
            for ev in events:
                counts[ev[0]] = counts.get(ev[0], 0) + 1
                if mutating(ev) and not (ev[0] in ("write", "writev", "pwrite64") and ev[4] in (1, 2)):
                    points.append((ev[0], counts[ev[0]], ev[1][:80]))
            for (name, idx, desc) in points:
                jobs.append((k, opts, old_src, new_src, old, newc, "%s:signal=SIGKILL:when=%d" % (name, idx), "kill", desc, len(jobs)))
                if name in ("openat", "write", "renameat", "renameat2", "rename", "fchmod", "mkdir", "mkdirat"):
                    for errno in (("ENOSPC", "EIO") if name == "write" else ("EACCES", "ENOSPC") if name == "openat" else ("EIO",)):
                        jobs.append((k, opts, old_src, new_src, old, newc, "%s:error=%s:when=%d" % (name, errno, idx), "error", desc, len(jobs)))

        def one(job):
            k, opts, old_src, new_src, old, newc, inject, kind, desc, n = job
            w = make_project(base, "f%d" % n, {"Form.qml": old_src})
            if any(x is not None for x in old.values()):
                subprocess.run(cli_args(opts + ["Form.qml"]), cwd=w, capture_output=True, env=ENV, timeout=120)
            open(os.path.join(w, "Form.qml"), "w").write(new_src)
            st, err, events = run_traced(w, opts + ["Form.qml"], inject=inject, log="inj.log")
            outdir = os.path.join(w, opts[1]) if opts else w
            state = {}
            for o in old:
                p = os.path.join(outdir, o)
                state[o] = open(p, "rb").read() if os.path.exists(p) else None
            shutil.rmtree(os.path.join(w, ".."), ignore_errors=True)
            return job, st, err, state

        with ThreadPoolExecutor(max_workers=common.NCPU) as ex:
            for job, st, err, state in ex.map(one, jobs):
                k, opts, old_src, new_src, old, newc, inject, kind, desc, n = job
                rp = {"inject": inject, "at": desc, "options": opts, "stderr": err[-600:]}
                if st is None:
                    v.inconc("watchdog during injected run")
                    continue
                if kind == "kill":
                    crash_points += 1
                else:
                    errors_injected += 1
                shapes.add(("fault", kind, inject.split(":")[0], inject.split(":")[1]))
                shapes.add(("fault-history", "first-generation" if old["form.ui"] is None else "regeneration"))
                for o, content in state.items():
                    if content != old[o] and content != newc[o]:
                        what = "missing" if content is None else "torn (%d bytes; old %s, new %d)" % (
                            len(content), "absent" if old[o] is None else len(old[o]), len(newc[o]))
                        v.violation("torn-output:" + kind, "after %s at %s the output %s is %s" % (inject, desc, o, what), rp)
                if kind == "error" and st not in (1,):
                    # the injected call may not be reached any more if an earlier output was already up to date; status 0 is fine
                    # only if everything was written
                    complete = all(state[o] == newc[o] for o in state)
                    if not (st == 0 and complete):
                        v.violation("io-error-status", "injected %s: exit status %s" % (inject, st), rp)
        if len(samples) < 3 and jobs:
            samples.append({"crash_point_list_of_one_project": ["%s (#%d)" % (j[8], n) for n, j in enumerate(jobs) if j[0] == 0 and j[7] == "kill"][:20]})
    v.assumptions = ["crash points are the entries of the file-mutating syscalls of the monitored run (observed with strace) plus injected "
                     "errno results; durability across power loss is not claimed by the property",
                     "stderr writes are never targeted by fault injection"]
    return v.finish(
        evaluations=n_inv + crash_points + errors_injected, distinct_nontrivial=len(shapes),
        rule="source path shapes (plain, ./, dir/../, absolute, escaping, two sources; nested/spaced/non-ASCII names) x options "
             "(-O, --no-dynamic-binding, --no-lowercase-file-name) observed with strace and tree snapshots; 6-step edit/regenerate "
             "histories; fault enumeration: one SIGKILL per file-mutating syscall of a traced regeneration over old outputs, plus "
             "ENOSPC/EIO/EACCES injections; distinct = distinct (shape, options) / history step kinds / (fault kind, syscall, errno)",
        samples=samples, invocations=n_inv, crash_points_enumerated=crash_points, io_errors_injected=errors_injected,
        strace_available=have_strace, exhaustive=False, floor=8,
    )
