"""C16 — the support header is self-consistent, valid C++ over the documented Qt API."""
import json
import os
import re
from concurrent.futures import ThreadPoolExecutor

from .. import cbdoc, common, cxxmodel, cxxrun, doccheck, exprdoc, gen_expr as ge, strings
from ..gen_doc import DocGen
from .c01 import translate_docs

KNOWN_COMPILE = [
    # (signature, regex every error line must match)
    ("minmax-literal-type-mismatch", re.compile(r"error: no matching function for call to .(max|min)\(")),
    ("inf-nan-constant", re.compile(r"error: .(inf|NaN|nan). was not declared in this scope")),
    ("double-remainder", re.compile(r"error: invalid operands of types .double. and .double. to binary .operator%.")),
]


def scan_support_header(h):
    """Token-level self-consistency of a support header.  -> list of alarms."""
    alarms = []
    includes = set(re.findall(r"^#include <([^>]+)>", h, re.M))
    defined = re.findall(r"^    (?:[\w:<>\*& ]+?)\b((?:setup|update|eval|on)\w*)\([^)]*\)\s*$", h, re.M)
    counts = {}
    for d in defined:
        counts[d] = counts.get(d, 0) + 1
    for n, c in counts.items():
        if c != 1:
            alarms.append("member function %s is defined %d times" % (n, c))
    called = set(re.findall(r"this->((?:setup|update|eval|on)\w+)\(", h))
    for n in called:
        if counts.get(n, 0) != 1:
            alarms.append("member function %s is called but defined %d times" % (n, counts.get(n, 0)))
    m = re.search(r"enum class BindingIndex : unsigned \{(.*?)\};", h, re.S)
    enums = [x.strip() for x in (m.group(1) if m else "").split(",") if x.strip()]
    if len(set(enums)) != len(enums):
        alarms.append("BindingIndex has duplicate enumerators")
    for e in enums:
        for pre in ("setup", "update"):
            if counts.get(pre + e, 0) != 1:
                alarms.append("binding %s has %d %s functions" % (e, counts.get(pre + e, 0), pre))
    used_idx = set(re.findall(r"BindingIndex::(\w+)", h))
    for u in used_idx:
        if u not in enums:
            alarms.append("BindingIndex::%s is used but not declared" % u)
    g = re.search(r"quint32 bindingGuard_\[(\d+)\]", h)
    need = (len(enums) + 31) // 32
    if enums and (not g or int(g.group(1)) < need):
        alarms.append("guard array has %s words, %d bindings need %d" % (g.group(1) if g else "no", len(enums), need))
    # observer arrays
    sizes = {n: int(k) for n, k in re.findall(r"PropertyObserver (observed\w+_)\[(\d+)\];", h)}
    for fm in re.finditer(r"^    [\w:<>\*& ]+?\beval(\w+)\(\)\s*\n    \{(.*?)^    \}", h, re.S | re.M):
        name, body = fm.group(1), fm.group(2)
        idx = [int(k) for k in re.findall(r"\bobserved\[(\d+)\]", body)]
        if idx:
            arr = re.search(r"auto &observed = (observed\w+_);", body)
            if not arr or arr.group(1) not in sizes:
                alarms.append("eval%s uses observers but no observer array is declared" % name)
            elif max(idx) >= sizes[arr.group(1)]:
                alarms.append("eval%s uses observed[%d], array %s has %d entries" % (name, max(idx), arr.group(1), sizes[arr.group(1)]))
            if "const auto update" not in body:
                alarms.append("eval%s observes properties but has no update functor" % name)
    code = re.sub(r'"(?:[^"\\]|\\.)*"', '""', h)
    if re.search(r"\bstd::(max|min)\(", code) and "algorithm" not in includes:
        alarms.append("std::max/std::min used without #include <algorithm>")
    if re.search(r"\bq(Debug|Info|Warning|Critical)\(\)", code) and "QtDebug" not in includes:
        alarms.append("qDebug()/qInfo()/qWarning()/qCritical() used without #include <QtDebug>")
    return alarms, len(enums), len([d for d in counts if d.startswith("on")])


ABSORB = ["rec\x001\x002\x007", "\x0012", "\x011", "\x1f7z", "\n0", "\t7", "\x7f1", "\x1bf", "\x0cA", "é9", "\u200bB", "\x00",
          "a\x00", "\x000", "\x08" + "8", "\x01" + "9", "\\0", "\\x41", "\x0e" + "e", "?" + "?=", "\x7f" + "F", "\x00\x00" + "7",
          "\U000E0067\U000E0062", "\U000E0100x", "\U000F0000", "a\U0010FFFFb"]


class LiteralDoc:
    """Bindings `sval: edit.text + <literal>` for hostile literals: executed with edit.text == '' the value IS the literal."""

    def __init__(self, rng, n=16, fixed=None):
        self.rng = rng
        if fixed:
            n = len(fixed)
        self.objects = [ge.ObjSpec(i, c) for i, c in exprdoc.SOURCES]
        self.targets = ["t%d" % k for k in range(n)]
        self.bindings = []
        self.features = set()
        for k, tg in enumerate(self.targets):
            s, pool = strings.pick_string(rng, True, allow_controls=(k % 4 == 3), allow_cr=True)
            if fixed or k % 5 == 4:
                # an escape directly followed by a character a C++ compiler could absorb into it
                s, pool = (fixed[k] if fixed else rng.choice(ABSORB)), "escape-then-digit"
            lit = ge.N("lit", ge.STR, v=(s, strings.js_literal(rng, s)), const=True)
            form = k % 3
            if "\x00" in s:
                form = 0   # qsTr() text travels as a NUL-terminated C string in Qt: not used for strings holding U+0000
            if form == 0:
                prog = ge.N("bin", ge.STR, (ge.N("prop", ge.STR, (ge.N("obj", ge.PTR, v="edit", const=True),), v="text"), lit), v="+")
            elif form == 1:
                prog = ge.N("tern", ge.STR, (ge.N("prop", ge.BOOL, (ge.N("obj", ge.PTR, v="chk", const=True),), v="checked"),
                                             ge.N("tr", ge.STR, (lit,)), lit))
            else:
                prog = ge.N("call", ge.STR, (ge.N("tr", ge.STR, (ge.N("lit", ge.STR, v=("%1", '"%1"'), const=True),)),
                                             ge.N("bin", ge.STR, (lit, ge.N("prop", ge.STR, (ge.N("obj", ge.PTR, v="edit", const=True),), v="text")), v="+")), v="arg")
            b = exprdoc.Binding(tg, "sval", ge.STR, prog, ge.print_program(prog, None))
            b.literal, b.pool = s, pool
            self.bindings.append(b)
        self.source = exprdoc.ExprDoc.to_qml(self)

    to_qml = exprdoc.ExprDoc.to_qml
    drop_rejected = exprdoc.ExprDoc.drop_rejected
    resolve_functions = exprdoc.ExprDoc.resolve_functions


COLLIDE_QML = """import qmluic.QtWidgets
QWidget {
    id: root
    QLineEdit { id: le }
    QCheckBox { id: cb }
    QGroupBox { id: aWindow; title: le.text; toolTip: le.text }
    QWidget { id: a; windowTitle: le.text; enabled: cb.checked }
    VfWidget { id: t; x1: le.text.isEmpty() ? 1 : 2; ival: 3 + (cb.checked as int) }
    VfWidget { id: tX; ival: cb.checked ? 1 : 0; onIvalChanged: console.log("x") }
    VfWidget { id: tX1; ival: 2 * (cb.checked as int); onX1Changed: console.log("y") }
    QWidget { id: a1; enabled: !cb.checked; windowTitle: le.text + "1" }
    QGroupBox { id: aWindowT; title: le.text; toolTip: "x" + le.text }
    // object id + signal name spell the same function name for two different handlers
    QComboBox { id: name; editable: true; onEditTextChanged: console.log("combo") }
    QLineEdit { id: nameEdit; onTextChanged: console.log("edit") }
    QLineEdit { id: search; onReturnPressed: console.log("return") }
    QPushButton { id: searchReturn; onPressed: console.log("pressed") }
    VfWidget {
        id: g
        font.bold: cb.checked
        font.family: le.text
        font.pointSize: cb.checked ? 9 : 10
        font.underline: !cb.checked
        fontFamily: le.text + "f"
        fontBold: !cb.checked
        ival: Math.max(1, cb.checked as int)
        onFired: console.warn(Math.min(g.ival, 2))
    }
}
"""

# callback parameters of value-class types are the handler's own copies: they are assigned, their members written, they are copied
GADGET_PARAM_QML = """import qmluic.QtWidgets
QWidget {
    id: root
    VfWidget { id: t0 }
    VfWidget { id: s0; onFonted: function(f: QFont) { f.pointSize = 20; f.bold = !f.bold; t0.font = f } }
    VfWidget { id: s1; onFonted: function(f: QFont) { let g = f; g.pointSize = 7; f = g; console.log(f.pointSize, g.italic) } }
    VfWidget { id: s2; onFonted2: function(n: int, f: QFont) { f.pointSize = n + f.pointSize; t0.ival = f.pointSize } }
    VfWidget { id: s3; onFonted: (f: QFont) => { f = t0.font; t0.ival = f.pointSize } }
    VfWidget { id: s4; onFonted2: function(n: int) { t0.ival = n } }
}
"""

# enumerators of scoped enums (enum class) in bindings and callbacks: spelled through their class / namespace AND the enum
SCOPED_ENUM_QML = """import qmluic.QtWidgets
QWidget {
    id: root
    QCheckBox { id: cb }
    VfWidget { id: vw }
    QLabel {
        id: lb
        text: {
            let policy = cb.checked ? Qt.HighDpiScaleFactorRoundingPolicy.Round : Qt.HighDpiScaleFactorRoundingPolicy.PassThrough;
            return policy == Qt.HighDpiScaleFactorRoundingPolicy.Round ? "rounded" : "as is";
        }
        enabled: (cb.checked ? VfWidget.Level.Low : VfWidget.Level.High) != VfWidget.Level.Mid
    }
    QPushButton {
        onClicked: {
            let level = VfWidget.Level.Low;
            if (cb.checked)
                level = VfWidget.Level.High;
            console.log("high:", level == VfWidget.Level.High);
        }
    }
}
"""

# the only user of console.* is a CONSTANT member of a gadget group that also has a dynamic member (the group is then
# evaluated by the support code, constant members included)
INCLUDE_QML = """import qmluic.QtWidgets
QWidget {
    id: root
    QCheckBox { id: cb }
    VfWidget {
        id: g2
        font.bold: cb.checked
        font.pointSize: { console.log("only user of QtDebug"); return 12 }
    }
}
"""


def run(tier, seed, replay=None):
    v = common.Verdict("C16", tier, seed)
    rng = common.rng_for(seed, "C16", tier)
    scale = 1 if tier == "quick" else 20
    cxxmodel.ensure_model()
    docs = []
    for i in range(14 * scale):
        g = DocGen(rng, hostile_strings=True, adversarial_names=True, dynamic=0.5, callbacks=0.4,
                   max_depth=rng.choice((3, 4)), max_fanout=5, max_objects=rng.choice((8, 16, 30)), max_bindings=rng.choice((4, 8, 14)))
        d = g.make()
        d.kind = "tree"
        docs.append(d)
    for i in range(14 * scale):
        d = exprdoc.ExprDoc(rng, n_targets=rng.choice((1, 2, 4, 5, 8, 9)), max_depth=rng.choice((2, 3)), hostile_strings=(i % 2 == 0))
        d.kind = "programs"
        docs.append(d)
    for i in range(6 * scale):
        # hazards switched ON: shapes the general workloads keep away from because they hit listed findings
        d = exprdoc.ExprDoc.__new__(exprdoc.ExprDoc)
        d.rng, d.objects, d.targets, d.features, d.bindings = rng, [ge.ObjSpec(a, c) for a, c in exprdoc.SOURCES], ["t0"], set(), []
        env = ge.Env(d.objects, owner=ge.ObjSpec("t0", "VfWidget"), owner_free=exprdoc.OWNER_FREE)
        g = ge.Gen(rng, env, max_depth=3, features=d.features)
        g.minmax_literal_hazard = g.inf_constant_hazard = True
        for t in (ge.INT, ge.UINT, ge.DOUBLE, ge.UINT, ge.DOUBLE, ge.INT):
            if t == ge.UINT and rng.random() < 0.6:
                prog = ge.N("minmax", ge.UINT, (ge.N("prop", ge.UINT, (ge.N("obj", ge.PTR, v="a", const=True),), v="uval"), g.lit(ge.UINT)), v=rng.choice(("max", "min")))
            elif t == ge.DOUBLE and rng.random() < 0.5:
                z = ge.N("lit", ge.DOUBLE, v=(0.0, "0.0"), const=True)
                one = ge.N("lit", ge.DOUBLE, v=(1.0, rng.choice(("1.0", "1e0", "1e999" if rng.random() < 0.3 else "2.5"))), const=True)
                prog = ge.N("bin", ge.DOUBLE, (ge.N("prop", ge.DOUBLE, (ge.N("obj", ge.PTR, v="a", const=True),), v="dval"),
                                               ge.N("bin", ge.DOUBLE, (one, z), v="/", const=True)), v="+")
            elif t == ge.DOUBLE:
                prog = ge.N("bin", ge.DOUBLE, (ge.N("prop", ge.DOUBLE, (ge.N("obj", ge.PTR, v="a", const=True),), v="dval"), g.lit(ge.DOUBLE)), v="%")
            else:
                prog = g.program(t, "expr")
            d.bindings.append(exprdoc.Binding("t0", ge.TARGET_PROP[t] if len([b for b in d.bindings if b.prop == ge.TARGET_PROP[t]]) == 0
                                              else {"uval": "uval2", "dval": "dval2", "ival": "ival2"}[ge.TARGET_PROP[t]], t, prog, ge.print_program(prog, rng)))
        d.source = d.to_qml()
        d.kind = "hazard"
        docs.append(d)
    for i in range(6 * scale):
        d = cbdoc.CbDoc(rng, n_handlers=10, max_depth=2)
        d.kind = "callbacks"
        docs.append(d)
    litdocs = [LiteralDoc(rng, fixed=ABSORB)] + [LiteralDoc(rng) for _ in range(4 * scale)]
    for d in litdocs:
        d.kind = "literals"
    docs += litdocs

    class Raw:
        pass
    raw = Raw()
    raw.source, raw.kind, raw.bindings, raw.type_name = COLLIDE_QML, "collisions", [], "MyType"
    raw.drop_rejected = lambda diags: []
    docs.append(raw)
    raw2 = Raw()
    raw2.source, raw2.kind, raw2.bindings, raw2.type_name = INCLUDE_QML, "include-hazard", [], "MyType"
    raw2.drop_rejected = lambda diags: []
    docs.append(raw2)
    # the include collector walks per-object hash maps: the same hazard document is translated several times so that every
    # iteration order is seen (each translation creates its maps with fresh hash seeds)
    for variant in range(3):
        uses = [("ival", "Math.max(sp.value, %d)" % variant), ("dval", "(sp.value as double) %% 2.5"), ("sval", "{ console.log(\"u\"); return le.text }")]
        body = "\n".join("        %s: %s" % u for u in (uses[variant:] + uses[:variant])[:2 + variant % 2])
        qml = ("import qmluic.QtWidgets\nQWidget {\n    id: root\n    QSpinBox { id: sp }\n    QCheckBox { id: cb }\n    QLineEdit { id: le }\n"
               "    VfWidget {\n        id: g3\n        font.bold: cb.checked\n        font.pointSize: 9\n%s\n    }\n}\n" % body)
        for rep in range(6):
            rw = Raw()
            rw.source, rw.kind, rw.bindings, rw.type_name = qml, "include-after-gadget-map", [], "MyType"
            rw.drop_rejected = lambda diags: []
            docs.append(rw)
    raw4 = Raw()
    raw4.source, raw4.kind, raw4.bindings, raw4.type_name = SCOPED_ENUM_QML, "scoped-enumerators", [], "MyType"
    raw4.drop_rejected = lambda diags: []
    docs.append(raw4)
    raw3 = Raw()
    raw3.source, raw3.kind, raw3.bindings, raw3.type_name = GADGET_PARAM_QML, "value-class-callback-parameters", [], "MyType"
    raw3.drop_rejected = lambda diags: []
    docs.append(raw3)
    # values without a C++ type of their own (`[]`, `null`, untyped literals) where a value is discarded: as the whole handler, as an
    # expression statement, under `as void`, as the unused completion value of a branch; each shape is its own document (translated, it must compile)
    for shape in ("onClicked: []", "onClicked: { []; }", "onClicked: null", "onClicked: { null; 1; \"s\"; 1.5; true }",
                  "onClicked: { if (checked) { [] } else { null } }", "onClicked: ([] as void)", "onClicked: (null as void)",
                  "onClicked: { (1 as void); (\"s\" as void); (cb.checked as void) }", "onToggled: function(on: bool) { on ? [] : [] }",
                  "onClicked: { switch (text) { case \"a\": []; break; default: null } }", "text: { ([] as void); return cb.text }",
                  "text: { (null as void); (cb.checked as void); cb.text }", "onClicked: [cb][0]", "onClicked: { [cb, null]; [[], [1]] }"):
        rw = Raw()
        rw.source = "import qmluic.QtWidgets\nQWidget {\n    QCheckBox { id: cb }\n    QPushButton {\n        %s\n    }\n}\n" % shape
        rw.kind, rw.bindings, rw.type_name = "untyped-discarded", [], "MyType"
        rw.drop_rejected = lambda diags: []
        docs.append(rw)
    if replay:
        rp = json.load(open(replay))
        docs = [d for d in docs if d.source == rp.get("qml")]
        if not docs:
            raise common.HarnessError("replay case not regenerated (different seed/tier?)")

    results, rejected = translate_docs(docs, "c16")
    base = common.workdir("c16")
    work = []
    n_bind = n_cb = 0
    max_bindings = 0
    kinds = {}
    for i, (d, r) in enumerate(zip(docs, results)):
        if r is None or r.get("panic"):
            v.inconc("no translation result / panic")
            continue
        if not (r.get("built") and not r.get("has_error") and not r.get("has_syntax_error")):
            if d.kind == "collisions":
                v.violation("collision-document-rejected", "document with colliding name prefixes rejected: %r"
                            % [x["message"] for x in r.get("diagnostics", [])][:3], {"qml": d.source})
            continue
        h = r["header"]
        al, nb, ncb = scan_support_header(h)
        n_bind += nb
        n_cb += ncb
        max_bindings = max(max_bindings, nb)
        for a in al:
            v.violation("scan:" + a.split(" ")[0] + "-" + a.split(" ")[1][:12], a, {"qml": d.source, "header": h})
            break
        cd = os.path.join(base, "d%d" % i)
        try:
            if d.kind == "literals":
                d.resolve_functions(h)
                st = exprdoc.ExprDoc.make_states(_state_helper(d, rng), 1)[0]
                st["edit"]["text"] = ""
                st["chk"]["checked"] = bool(i % 2)
                plan = [(0, [bi for bi, b in enumerate(d.bindings) if b.func])]
                cxxrun.write_case(cd, r["ui"], h, exprdoc.driver_eval(d, [st], plan))
                exprdoc.write_plan_files(cd, d, [st], plan)
            else:
                root_class = re.search(r"<widget class=\"(\w+)\"", r["ui"]).group(1)
                main = ("#include \"uisupport_mytype.h\"\nint main() { %s root; Ui::MyType ui; ui.setupUi(&root); "
                        "UiSupport::MyType s(&root, &ui); (void)s; return 0; }\n" % root_class)
                cxxrun.write_case(cd, r["ui"], h, main)
        except cxxmodel.UicError as e:
            if "duplicate member" in str(e):
                v.violation("duplicate-ui-member", "mini-uic: %s" % e, {"qml": d.source, "ui": r["ui"]})
            else:
                v.inconc("mini-uic: %s" % e)
            continue
        kinds[d.kind] = kinds.get(d.kind, 0) + 1
        work.append((d, cd, r))

    def build(item):
        d, cd, r = item
        if d.kind == "literals":
            ok, err = cxxrun.compile_case(cd)
            if ok:
                return item, ok, err, cxxrun.run_case(cd)
            return item, ok, err, None
        ok, err = cxxrun.compile_case(cd, syntax_only=True)
        return item, ok, err, None

    n_compiled = n_lit = 0
    samples = []
    distinct = set()
    with ThreadPoolExecutor(max_workers=common.NCPU) as ex:
        for (d, cd, r), ok, err, run in ex.map(build, work):
            if ok is None:
                v.inconc("compiler timeout")
                continue
            if not ok:
                errs = [l for l in err.splitlines() if " error: " in l]
                # every error line is attributed to a listed finding only if it has exactly that finding's form
                by_sig = {}
                for l in errs or [err[-300:]]:
                    sig = next((ksig for ksig, rx in KNOWN_COMPILE if rx.search(l)), "does-not-compile")
                    by_sig.setdefault(sig, []).append(l)
                for sig, ls in by_sig.items():
                    v.violation(sig, "support header does not compile against the API model: %s" % ls[0][-300:],
                                {"qml": d.source, "header": r["header"], "compiler": "\n".join(ls[:20]), "kind": d.kind})
                continue
            n_compiled += 1
            distinct.add(common.shash(re.sub(r"\d+", "N", re.sub(r'"(?:[^"\\]|\\.)*"', '""', r["header"]))))
            if d.kind == "literals" and run is not None:
                status, events, serr = run
                got = {e["tag"]: cxxrun.decode(e["value"]) for e in events if e.get("ev") == "result"}
                for bi, b in enumerate(d.bindings):
                    tag = "s0.b%d" % bi
                    if not b.func or tag not in got:
                        continue
                    n_lit += 1
                    exp = ("s", tuple(strings.utf16_units(b.literal)))
                    if got[tag] != exp:
                        v.violation("string-literal-differs", "literal %r (%s pool) arrives as %r in the compiled header" % (b.literal, b.pool, got[tag]),
                                    {"program": b.src, "literal": b.literal, "observed": str(got[tag]), "qml": d.source, "header": r["header"]})
                    elif len(samples) < 3 and b.pool not in ("plain",) and b.pool not in [s.get("pool") for s in samples]:
                        samples.append({"pool": b.pool, "qml_literal": b.src[:200], "utf16_units_from_compiled_header": list(got[tag][1])[:40]})
                if status != 0:
                    v.inconc("literal driver ended with %r: %s" % (status, serr[-200:]))
    if len(samples) < 4:
        samples.append({"document": "name-prefix collisions", "qml": COLLIDE_QML[:1200]})
    v.assumptions = ["API declarations generated from the same type information (qv/cxxmodel.py) stand in for Qt's headers; "
                     "mini-uic stands in for uic; QFlags operators and implicit conversions Qt adds beyond the metatypes are not modelled",
                     "missing <algorithm>/<QtDebug> is decided by the token scan (libstdc++ headers pull std::max in transitively)"]
    return v.finish(
        evaluations=n_compiled + n_lit, distinct_nontrivial=len(distinct),
        rule="headers of tree documents (dynamic + callback + gadget sub-bindings, hostile strings, adversarial ids), program documents "
             "(1-72 bindings, crossing the 32/64 guard-word boundaries), callback documents, hazard shapes, a name-prefix collision "
             "document: g++ -std=c++17 -fsyntax-only -Wall -Werror=return-type against generated API declarations + token scan; "
             "hostile literals are compiled and printed; distinct = distinct header skeleton (strings and numbers blanked)",
        samples=samples, headers_compiled=n_compiled, documents_by_kind=kinds, bindings_scanned=n_bind, callbacks_scanned=n_cb,
        max_bindings_in_one_header=max_bindings, string_literals_executed=n_lit, programs_rejected_by_qmluic=len(rejected), floor=20,
    )


def _state_helper(d, rng):
    h = exprdoc.ExprDoc.__new__(exprdoc.ExprDoc)
    h.rng, h.objects, h.targets, h.bindings = rng, d.objects, d.targets, []
    return h
