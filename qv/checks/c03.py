"""C03 — values embedded in the .ui equal the value of their source expression."""
import json
import math
import re

from .. import regen, common, strings, uiparse

I64_MIN, I64_MAX = -2 ** 63, 2 ** 63 - 1


class Undef(Exception):
    pass


def chk(v):
    if not (I64_MIN <= v <= I64_MAX):
        raise Undef("64-bit overflow")
    return v


def tdiv(a, b):
    q = abs(a) // abs(b)
    return q if (a >= 0) == (b >= 0) else -q


# ---- expression trees: ('lit', type, value, spelling) | (op, type, children...)

def int_spelling(rng, v):
    r = rng.random()
    if r < 0.45:
        s = str(v)
        if v >= 1000 and rng.random() < 0.3:
            s = s[:-3] + "_" + s[-3:]
        return s
    if r < 0.65:
        s = ("%x" if rng.random() < 0.5 else "%X") % v
        if len(s) > 4 and rng.random() < 0.3:
            s = s[:-4] + "_" + s[-4:]
        return rng.choice(("0x", "0X")) + s
    if r < 0.8:
        return rng.choice(("0o", "0O")) + ("%o" % v)
    return rng.choice(("0b", "0B")) + bin(v)[2:]


def float_spelling(rng, v):
    cands = [repr(v)]
    if v == int(v) and abs(v) < 1e15:
        cands += ["%d." % v, "%d.0" % v, "%d.00" % v, "%de0" % v, "%d.0e+0" % v]
    if 0 < v < 1:
        cands.append(repr(v).lstrip("0"))   # .5
    cands += ["%e" % v, "%.17g" % v]
    ok = []
    for c in cands:
        try:
            if float(c) == v and ("." in c or "e" in c):
                ok.append(c)
        except ValueError:
            pass
    return rng.choice(ok or [repr(v)])


INT_VALUES = [0, 1, 2, 3, 7, 8, 10, 31, 32, 63, 64, 100, 255, 256, 1000, 65535, 65536, 2 ** 31 - 1, 2 ** 31, 2 ** 32 - 1, 2 ** 32,
              2 ** 53, 2 ** 53 + 1, 2 ** 62, 2 ** 63 - 1, 46341, 3037000500,
              # literals no 64-bit integer can hold: they denote 2^63.. and must never come out as a wrapped value
              2 ** 63, 2 ** 63 + 1, 2 ** 64 - 1, 2 ** 64, 2 ** 64 + 5, 2 ** 63 + 2 ** 40]
FLT_VALUES = [0.0, 0.5, 1.0, 1.5, 2.0, 2.25, 3.75, 10.0, 0.1, 0.125, 100.0, 1e3, 1e-3, 1e10, 123456.789, 2.5e-7, 1e100, 4294967296.0]
STR_VALUES = ["", "a", "b", "ab", "A", "z", "é", "日本", "\U0001F600", "�", "\U00010000", "a\U00010000", " ", "x y", "<&>", "\"q\"",
              "tab\there", "nl\nhere", "\\", "%1", "\x41", "\x7f", " ", "first\rsecond", "a\r\nb", "\r", "x\r"]
ORDER_STRINGS = ["\U0001F600", "\uFF5E", "\uFFFD", "\uE000", "\U00010000", "\U0010FFFF", "a\U0001F600", "a\uFF5E", "\uD7FF", "\U0001F600b",
                 "\uFF5Eb", "\uFFFF", "\U0001F600\uFF5E", "\uFF5E\U0001F600", "\u65E5\U00020000", "\u65E5\uF900"]
MODES = ["ModeA", "ModeB", "ModeC", "ModeD"]
OPTS = ["OptNone", "OptX", "OptY", "OptZ"]


def gen(rng, t, depth):
    if depth <= 0 or rng.random() < 0.25:
        return leaf(rng, t)
    if t == "int":
        r = rng.random()
        if r < 0.06:
            # `x as int` of a constant: if embedded at all, the value is the converted one
            return ("cast", "int", gen(rng, rng.choice(("double", "double", "bool")), depth - 1))
        if r < 0.15:
            return ("neg", "int", gen(rng, "int", depth - 1))
        if r < 0.22:
            return ("bnot", "int", gen(rng, "int", depth - 1))
        if r < 0.27:
            return ("pos", "int", gen(rng, "int", depth - 1))
        op = rng.choice(("+", "-", "*", "/", "%", "&", "|", "^", "<<", ">>", "/", "%", "<<", ">>"))
        if rng.random() < 0.04:
            op = ">>>"       # not in the supported subset: rejected, or - if ever accepted - the ECMAScript zero-fill shift
        b = gen(rng, "int", depth - 1)
        if op in ("<<", ">>", ">>>") and rng.random() < 0.7:
            n = rng.choice((0, 1, 2, 3, 8, 16, 31, 32, 33, 61, 62, 63, 64, 65))
            b = ("lit", "int", n, str(n))
        return (op, "int", gen(rng, "int", depth - 1), b)
    if t == "double":
        r = rng.random()
        if r < 0.06:
            return ("cast", "double", gen(rng, "int", depth - 1))
        if r < 0.15:
            return ("neg", "double", gen(rng, "double", depth - 1))
        return (rng.choice(("+", "-", "*", "/", "%")), "double", gen(rng, "double", depth - 1), gen(rng, "double", depth - 1))
    if t == "bool":
        r = rng.random()
        if r < 0.12:
            return ("not", "bool", gen(rng, "bool", depth - 1))
        if r < 0.3:
            return (rng.choice(("&", "|", "^")), "bool", gen(rng, "bool", depth - 1), gen(rng, "bool", depth - 1))
        ot = rng.choice(("int", "int", "double", "str", "str", "bool"))
        ops = ("==", "!=", "<", "<=", ">", ">=", "===", "!==") if ot != "bool" else ("==", "!=")
        if ot == "str" and rng.random() < 0.4:
            # strings whose order by UTF-16 code unit (ECMAScript, QString) differs from their order by code point / UTF-8 byte: a
            # supplementary character against U+E000..U+FFFF, alone, after a common prefix, in front of a tail
            a, b = rng.sample(ORDER_STRINGS, 2)
            return (rng.choice(("<", "<=", ">", ">=", "<", ">", "==", "!=")), "bool", ("lit", "str", a, strings.js_literal(rng, a)),
                    ("lit", "str", b, strings.js_literal(rng, b)))
        return (rng.choice(ops), "bool", gen(rng, ot, depth - 1), gen(rng, ot, depth - 1))
    if t == "str":
        return ("+", "str", gen(rng, "str", depth - 1), gen(rng, "str", depth - 1))
    raise ValueError(t)


def leaf(rng, t):
    if t == "int":
        v = rng.choice(INT_VALUES) if rng.random() < 0.7 else rng.randint(0, 10 ** rng.randint(1, 18))
        return ("lit", "int", v, int_spelling(rng, v))
    if t == "double":
        v = rng.choice(FLT_VALUES)
        return ("lit", "double", v, float_spelling(rng, v))
    if t == "bool":
        v = rng.random() < 0.5
        return ("lit", "bool", v, "true" if v else "false")
    if t == "str":
        v = rng.choice(STR_VALUES)
        return ("lit", "str", v, strings.js_literal(rng, v))
    raise ValueError(t)


def ev(e):
    k = e[0]
    if k == "lit":
        return chk(e[2]) if e[1] == "int" else e[2]
    t = e[1]
    if k == "neg":
        v = ev(e[2])
        return chk(-v) if t == "int" else -v
    if k == "pos":
        return ev(e[2])
    if k == "bnot":
        return chk(~ev(e[2]))
    if k == "not":
        return not ev(e[2])
    if k == "cast":
        x = ev(e[2])
        ft = e[2][1]
        if t == "double":
            return float(x)
        if ft == "bool":
            return 1 if x else 0
        if math.isnan(x) or math.isinf(x) or not (-2 ** 31 - 1 < x < 2 ** 31):
            raise Undef("conversion out of the range of int (not judged)")
        return int(x)     # static_cast<int>: towards zero
    a, b = ev(e[2]), ev(e[3])
    at = e[2][1]
    if t == "bool" and k in ("==", "!=", "<", "<=", ">", ">=", "===", "!=="):
        if at == "str":
            a, b = strings.utf16_units(a), strings.utf16_units(b)
        if at == "double" and (math.isnan(a) or math.isnan(b)):
            raise Undef("NaN comparison (not judged)")
        return {"==": a == b, "===": a == b, "!=": a != b, "!==": a != b, "<": a < b, "<=": a <= b, ">": a > b, ">=": a >= b}[k]
    if t == "bool":
        return {"&": a and b, "|": a or b, "^": a != b}[k]
    if t == "str":
        return a + b
    if t == "double":
        try:
            if k == "/":
                if b == 0:
                    r = math.nan if a == 0 or math.isnan(a) else math.copysign(math.inf, a) * math.copysign(1, b)
                else:
                    r = a / b
            elif k == "%":
                r = math.fmod(a, b) if (b != 0 and not math.isinf(a)) else math.nan
            else:
                r = {"+": a + b, "-": a - b, "*": a * b}[k]
        except OverflowError:
            r = math.inf
        return r
    # int
    if k in ("+", "-", "*"):
        return chk({"+": a + b, "-": a - b, "*": a * b}[k])
    if k in ("/", "%"):
        if b == 0:
            raise Undef("division by zero")
        q = tdiv(a, b)
        return chk(q if k == "/" else a - q * b)
    if k in ("&", "|", "^"):
        return chk({"&": a & b, "|": a | b, "^": a ^ b}[k])
    if k == ">>>":
        if not (-2 ** 31 <= a < 2 ** 32) or not (0 <= b < 32):
            raise Undef("operand outside 32 bits (not judged)")
        return (a % 2 ** 32) >> b
    if k in ("<<", ">>"):
        if b < 0:
            raise Undef("negative shift")
        if b > 63:
            raise Undef("shift count exceeds the width")
        return chk(a << b) if k == "<<" else (a >> b)
    raise ValueError(k)


PREC = {"|": 6, "^": 7, "&": 8, "==": 9, "!=": 9, "===": 9, "!==": 9, "<": 10, "<=": 10, ">": 10, ">=": 10, "<<": 11, ">>": 11, ">>>": 11,
        "+": 12, "-": 12, "*": 13, "/": 13, "%": 13}


def pr(e, parent=0, right=False):
    k = e[0]
    if k == "lit":
        return e[3]
    if k == "cast":
        s = "%s as %s" % (pr(e[2], 16), e[1])
        return "(" + s + ")"
    if k in ("neg", "pos", "bnot", "not"):
        inner = pr(e[2], 15)
        sym = {"neg": "-", "pos": "+", "bnot": "~", "not": "!"}[k]
        if inner[:1] in "+-" and sym in "+-":
            inner = "(" + inner + ")"
        s = sym + inner
        return "(" + s + ")" if parent >= 15 else s
    p = PREC[k]
    rs = pr(e[3], p, True)
    if k == "<" and rs.startswith("("):
        rs = "+" + rs if e[3][1] in ("int", "double") else rs   # keep away from `x < (` (grammar ambiguity of the parser)
        if not rs.startswith("+"):
            return "(" + "!(%s >= %s)" % (pr(e[2], 10), pr(e[3], 10, True)) + ")"
    s = "%s %s %s" % (pr(e[2], p), k, rs)
    return "(" + s + ")" if (p < parent or (p == parent and right)) else s


EXOTIC_STRINGS = [
    ('"one \\\ntwo"', "one two"), ("'a\\\nb'", "ab"), ('"a\\/b"', "a/b"), ('"\\q"', "q"), ('"\\-"', "-"), ('"\\a"', "a"), ('"x\\1y"', "x\x01y"),
    ('"\\7"', "\x07"), ('"\\12"', "\n"), ('"\\101"', "A"), ('"\\u{41}"', "A"), ('"\\u{000041}"', "A"), ('"\\x41\\x42"', "AB"),
    ('"\\u00e9"', "\u00e9"), ('"\\u{1F600}"', "\U0001F600"), ('"\\uD83D\\uDE00"', "\U0001F600"), ("'\\''", "'"), ('"\\""', '"'),
    ('"\\v\\f\\b"'.replace("\\v\\f\\b", "tab\\there"), "tab\there"), ('"\\r\\n"', "\r\n"), ('"a\\\r\nb"', "ab"), ('"\\8"', "8"),
]
TARGETS = {"int": "ival", "double": "dval", "bool": "bval", "str": "sval"}


def make_doc(rng, n_objs):
    """-> (qml, cases [(object id, prop, kind, expression tree / description, source text)])"""
    L = ["import qmluic.QtWidgets", "QWidget {", "    VfWidget { id: peerA }", "    VfSub { id: peerB }"]
    cases = []
    for k in range(n_objs):
        oid = "o%d" % k
        L.append("    VfWidget {")
        L.append("        id: %s" % oid)
        for t, prop in TARGETS.items():
            e = gen(rng, t, rng.choice((1, 2, 3, 4, 5)))
            src = pr(e)
            if t == "str" and rng.random() < 0.3 and e[0] == "lit":
                src = "qsTr(%s)" % src
                cases.append((oid, prop, "tr", e, src))
            else:
                cases.append((oid, prop, t, e, src))
            L.append("        %s: %s" % (prop, src))
        r = rng.random()
        m = rng.choice(MODES)
        L.append("        mode: VfWidget.%s" % m)
        cases.append((oid, "mode", "enum", "VfWidget::" + m, "VfWidget." + m))
        fl = [rng.choice(OPTS) for _ in range(rng.choice((1, 2, 3)))]
        L.append("        opts: %s" % " | ".join("VfWidget." + f for f in fl))
        cases.append((oid, "opts", "set", "|".join("VfWidget::" + f for f in fl), ""))
        items = [rng.choice(STR_VALUES) for _ in range(rng.choice((0, 1, 2, 3)))]
        tr = rng.random() < 0.3 and items
        mixed = rng.random() < 0.1 and len(items) >= 2
        lits = []
        for i, s in enumerate(items):
            lit = strings.js_literal(rng, s)
            lits.append("qsTr(%s)" % lit if (tr and not (mixed and i == 0)) else lit)
        L.append("        slist: [%s]" % ", ".join(lits))
        cases.append((oid, "slist", "mixed-list" if (mixed and tr) else "stringlist", (items, not tr), ""))
        pr_ = rng.choice(("peerA", "peerB", "o%d" % rng.randrange(n_objs)))
        L.append("        peer: %s" % pr_)
        cases.append((oid, "peer", "objref", pr_, pr_))
        L.append("    }")
    L += ["}", ""]
    return "\n".join(L), cases


CONSTANT_PROGRAMS = [
    ('{ let l = ["a", "b"]; l[0] = "c"; return l }', ["c", "b"]),
    ('{ let l = ["a", "b"]; l[1] = "c"; l[0] = "d"; return l }', ["d", "c"]),
    ('{ let l = ["a", "b"]; let m = l; m[0] = "c"; return m }', ["c", "b"]),
    ('{ let l = ["a", "b"]; l[0] = "c"; return l[0] }', "c"),
    ('{ let l = ["a", "b"]; l[1] = "c"; return l[0] + l[1] }', "ac"),
    ('{ let l = ["a", "b"]; return l }', ["a", "b"]),
    ('{ let s = "a"; s = "b"; return s }', "b"),
    ('{ let s = "a"; { let s = "b"; } return s }', "a"),
    ('{ const s = "a"; let t = s; t = t + "x"; return t }', "ax"),
    ('{ let s = "a"; if (true) s = "b"; return s }', "b"),
    ('{ let s = "a"; switch (1) { case 1: s = "b"; break; default: s = "c"; } return s }', "b"),
    ('{ let s = "a"; console.log(s); return s + "z" }', "az"),
]


def run(tier, seed, replay=None):
    v = common.Verdict("C03", tier, seed)
    rng = common.rng_for(seed, "C03", tier)
    n_docs = 60 if tier == "quick" else 400
    docs = [make_doc(rng, 19) for _ in range(n_docs)]
    # one binding per document may be rejected -> the document is rejected: translate each object on its own as well
    jobs = []
    index = []
    for di, (qml, cases) in enumerate(docs):
        by_obj = {}
        for c in cases:
            by_obj.setdefault(c[0], []).append(c)
        for oid, cs in by_obj.items():
            for c in cs:
                # one document per binding: a rejection of one must not hide the others
                src = ("import qmluic.QtWidgets\nQWidget {\n VfWidget { id: peerA }\n VfSub { id: peerB }\n"
                       + "".join(" VfWidget { id: o%d }\n" % k for k in range(19) if "o%d" % k != oid)
                       + " VfWidget {\n  id: %s\n  %s: %s\n }\n}\n" % (oid, c[1], binding_src(c, qml, oid)))
                jobs.append({"id": "j%d" % len(jobs), "source": src, "modes": ["generate"], "want": ["ui"]})
                index.append((di, c))
    # string literal spellings with a defined ECMAScript meaning that the translator may or may not support: if one is
    # embedded, it must be embedded with that meaning
    for lit, denotes in EXOTIC_STRINGS:
        src = "import qmluic.QtWidgets\nQWidget {\n VfWidget {\n  id: o0\n  sval: %s\n }\n}\n" % lit
        jobs.append({"id": "j%d" % len(jobs), "source": src, "modes": ["generate"], "want": ["ui"]})
        index.append((-1, ("o0", "sval", "str", ("lit", "str", denotes, lit), lit)))
    # constant PROGRAMS (statement blocks over literals only): if the value is embedded, it is the value the block returns --
    # assignments, element assignments and shadowing included
    for text, denotes in CONSTANT_PROGRAMS:
        prop, kind, e = ("slist", "stringlist", (denotes, True)) if isinstance(denotes, list) else ("sval", "str", ("lit", "str", denotes, text))
        src = "import qmluic.QtWidgets\nQWidget {\n VfWidget {\n  id: o0\n  %s: %s\n }\n}\n" % (prop, text)
        jobs.append({"id": "j%d" % len(jobs), "source": src, "modes": ["generate"], "want": ["ui"]})
        index.append((-1, ("o0", prop, kind, e, text)))
    # operators outside the supported subset with a defined ECMAScript meaning: rejected, or embedded with that meaning
    for a in (-8, -1, -2147483648, -5, 5, 1024, 2147483647, 4294967295):
        for b in (0, 1, 3, 24, 28, 31):
            e = (">>>", "int", ("neg", "int", ("lit", "int", -a, str(-a))) if a < 0 else ("lit", "int", a, str(a)), ("lit", "int", b, str(b)))
            src = "import qmluic.QtWidgets\nQWidget {\n VfWidget {\n  id: o0\n  ival: %s\n }\n}\n" % pr(e)
            jobs.append({"id": "j%d" % len(jobs), "source": src, "modes": ["generate"], "want": ["ui"]})
            index.append((-1, ("o0", "ival", "int", e, pr(e))))
    if replay:
        rp = json.load(open(replay))
        keep = [i for i, j in enumerate(jobs) if j["source"] == rp.get("qml")]
        jobs = [dict(jobs[i], id="j%d" % n) for n, i in enumerate(keep)]
        index = [index[i] for i in keep]
    out = common.translate(jobs, tag="c03")
    stats = {"embedded": 0, "rejected-undefined": 0, "rejected-defined": 0, "not-embedded": 0, "undefined": 0}
    by_kind = {}
    distinct = set()
    samples = []
    for ji, (di, c) in enumerate(index):
        rs = out.results.get("j%d" % ji)
        if not rs:
            v.inconc("no result")
            continue
        r = rs[0]
        oid, prop, kind, e, src = c
        qml = jobs[ji]["source"]
        if r.get("panic"):
            v.violation("panic", "panic on constant binding %s: %s" % (src[:100], r["panic"]), {"qml": qml})
            continue
        accepted = r.get("built") and not r.get("has_error") and not r.get("has_syntax_error")
        exp = None
        undefined = None
        if kind in ("int", "double", "bool", "str", "tr"):
            try:
                exp = ev(e)
                if kind == "double" and (math.isnan(exp) or math.isinf(exp)):
                    undefined = "non-finite double (not judged)"
            except Undef as u:
                undefined = str(u)
        if not accepted:
            stats["rejected-undefined" if undefined else "rejected-defined"] += 1
            continue
        root = uiparse.parse(r["ui"])
        elem = next((n for n in root.walk() if n.tag == "widget" and n.attrs.get("name") == oid), None)
        p = uiparse.properties_of(elem).get(prop) if elem is not None else None
        if p is None or len(p.children) != 1:
            stats["not-embedded"] += 1   # left to run time (C01/C04)
            continue
        got = uiparse.decode_value(p.children[0])
        stats["embedded"] += 1
        by_kind[kind] = by_kind.get(kind, 0) + 1
        rp = {"qml": qml, "binding": "%s: %s" % (prop, binding_src(c, docs[di][0], oid) if di >= 0 else src), "observed": str(got)}
        if undefined and "not judged" not in undefined:
            stats["undefined"] += 1
            v.violation("undefined-embedded:" + undefined.split(" ")[0], "expression with undefined value (%s) embedded as %r: %s" % (undefined, got, src[:200]), rp)
            continue
        if undefined:
            continue
        ok = True
        if kind == "int":
            ok = got[0] == "number" and re.fullmatch(r"-?\d+", got[1]) is not None and int(got[1]) == exp
            if not ok and not (-2 ** 31 <= exp <= 2 ** 32 - 1):
                continue   # outside the range of the property type: nothing is stated about it
        elif kind == "double":
            try:
                ok = got[0] == "number" and float(got[1]) == exp and (exp != 0 or math.copysign(1, float(got[1])) == math.copysign(1, exp))
            except ValueError:
                ok = False
        elif kind == "bool":
            ok = got == ("bool", "true" if exp else "false")
        elif kind == "str":
            ok = got == ("string", exp, True)
        elif kind == "tr":
            ok = got == ("string", exp, False)
        elif kind == "enum":
            exp = e
            ok = got == ("enum", e)
        elif kind == "set":
            exp = e
            ok = got == ("set", e)
        elif kind == "stringlist":
            exp = e
            ok = got[0] == "stringlist" and list(got[1]) == e[0] and (got[2] == e[1] or not e[0])
        elif kind == "mixed-list":
            v.violation("mixed-list-embedded", "string list mixing translatable and plain strings was embedded: %r" % (got,), rp)
            continue
        elif kind == "objref":
            exp = e
            ok = got == ("cstring", e)
        if not ok:
            v.violation("wrong-constant:" + kind, "%s embedded as %r, the source expression denotes %r" % (rp["binding"][:160], got, exp),
                        dict(rp, expected=str(exp)))
            continue
        if kind in ("int", "double", "bool", "str") and e[0] != "lit":
            distinct.add(src)
        if len(samples) < 5 and kind not in [s["kind"] for s in samples] and (e[0] != "lit" if kind in ("int", "double", "bool", "str") else True):
            samples.append({"kind": kind, "binding": rp["binding"][:200], "reference_value": str(exp), "embedded": str(got)})
    v.assumptions = ["reference: checked 64-bit integer arithmetic (truncating / and %, shift counts 0..63), IEEE doubles, UTF-16 code unit "
                     "string order, written independently of tir/ceval.rs",
                     "not judged: integers outside the range of the bound property type, non-finite doubles, NaN comparisons, legacy octal"]
    # a constant edited into another one of the same printed length, generated over the previous outputs
    _w = regen.HEAD + "QWidget {\n    %s\n}\n"
    n_hist = 0 if replay else regen.regenerated_equals_fresh(v, "c03hist", [
        (_w % "minimumWidth: 123", _w % "minimumWidth: 321"), (_w % "windowTitle: \"abc\"", _w % "windowTitle: \"abd\""),
        (_w % "windowOpacity: 0.25", _w % "windowOpacity: 0.75"), (_w % "minimumWidth: 100 + 23", _w % "minimumWidth: 100 + 32"),
        (_w % "enabled: 1 < 2", _w % "enabled: 2 < 1"), (_w % "windowTitle: \"abc\"", _w % "windowTitle: \"a\" + \"bcd\""),
    ], "stale-constant-after-edit", "a constant edited", options=["--no-dynamic-binding"])
    return v.finish(
        histories_on_disk=n_hist, evaluations=len(index), distinct_nontrivial=len(distinct),
        rule="one document per binding; literal-only expressions (depth <= 5) over the foldable operators with values biased to "
             "2^31, 2^32, 2^53, 2^62, 2^63-1 in every radix / separator / exponent spelling, strings with escapes incl. astral and "
             "BMP-high characters, enum variants, flag unions, string lists (tr / plain / mixed), object references; distinct = "
             "distinct non-literal expression texts that were embedded and agreed with the reference",
        samples=samples, outcomes=stats, embedded_by_kind=by_kind, floor=100,
    )


def binding_src(c, qml, oid):
    """Source text of the binding as printed in the full document."""
    m = re.search(r"id: %s\n(.*?)\n    \}" % re.escape(oid), qml, re.S)
    for line in m.group(1).splitlines():
        line = line.strip()
        if line.startswith(c[1] + ": "):
            return line[len(c[1]) + 2:]
    return c[4]
