"""C19 — colour strings are read the way Qt reads them (as the property states it)."""
import json
import os
import subprocess

from .. import regen, common, uiparse
from ..svgcolors import SVG_COLORS

HEX = "0123456789abcdef"


def ref_color(s):
    """Reference decoder: (r, g, b, a) or None.  Written from the property text only."""
    if s.startswith("#"):
        h = s[1:]
        if not h or any(c not in "0123456789abcdefABCDEF" for c in h):
            return None
        d = [int(c, 16) for c in h]
        if len(d) == 3:
            return (d[0] * 17, d[1] * 17, d[2] * 17, 255)
        if len(d) == 4:
            return (d[1] * 17, d[2] * 17, d[3] * 17, d[0] * 17)
        if len(d) == 6:
            return (d[0] * 16 + d[1], d[2] * 16 + d[3], d[4] * 16 + d[5], 255)
        if len(d) == 8:
            return (d[2] * 16 + d[3], d[4] * 16 + d[5], d[6] * 16 + d[7], d[0] * 16 + d[1])
        return None
    # keywords are ASCII; only ASCII case folding applies
    low = "".join(chr(ord(c) + 32) if "A" <= c <= "Z" else c for c in s)
    if low == "transparent":
        return (0, 0, 0, 0)
    if low in SVG_COLORS:
        r, g, b = SVG_COLORS[low]
        return (r, g, b, 255)
    return None


def randcase(rng, s):
    return "".join(c.upper() if rng.random() < 0.5 else c.lower() for c in s)


def workload(rng, tier):
    """[(string, class of case)]"""
    cases = []
    # exhaustive: all 3- and 4-digit hex strings (lower case), plus case variants on a sample
    for a in HEX:
        for b in HEX:
            for c in HEX:
                cases.append(("#" + a + b + c, "hex3"))
    for a in HEX:
        for b in HEX:
            for c in HEX:
                for d in HEX:
                    cases.append(("#" + a + b + c + d, "hex4"))
    n_sample = 5000 if tier == "quick" else 50000
    for _ in range(n_sample // 10):
        cases.append(("#" + randcase(rng, "".join(rng.choice(HEX) for _ in range(rng.choice((3, 4))))), "hexcase"))
    edge = ["00", "ff", "80", "7f", "01", "fe", "10", "0f"]
    for _ in range(n_sample):
        if rng.random() < 0.3:
            h = "".join(rng.choice(edge) for _ in range(rng.choice((3, 4))))
        else:
            h = "".join(rng.choice(HEX) for _ in range(rng.choice((6, 8))))
        cases.append(("#" + (randcase(rng, h) if rng.random() < 0.5 else h), "hex68"))
    for k in list(SVG_COLORS) + ["transparent"]:
        for v in (k, k.upper(), k.title(), randcase(rng, k), randcase(rng, k)):
            cases.append((v, "keyword"))
    # strings that are not colours
    n_bad = 4000 if tier == "quick" else 20000
    kws = list(SVG_COLORS)
    junk = "ghxyz #-+._,;:()%/\\\"'\t\néKıſＡ"  # includes Kelvin sign, dotless i, long s
    for _ in range(n_bad):
        r = rng.random()
        if r < 0.25:   # wrong length
            n = rng.choice((0, 1, 2, 5, 7, 9, 10, 12, 16))
            s = "#" + "".join(rng.choice(HEX) for _ in range(n))
        elif r < 0.45:  # non-hex digit / sign / blank inside
            n = rng.choice((3, 4, 6, 8))
            h = [rng.choice(HEX) for _ in range(n)]
            h[rng.randrange(n)] = rng.choice("gGxX+- _.١１")
            s = "#" + "".join(h)
        elif r < 0.55:
            s = rng.choice((" ", "")) + "#" + "".join(rng.choice(HEX) for _ in range(6)) + rng.choice((" ", "", "\n"))
            if ref_color(s) is not None:
                s = " " + s
        elif r < 0.8:  # keyword near-misses
            k = rng.choice(kws)
            m = rng.randrange(6)
            if m == 0:
                s = k[:-1]
            elif m == 1:
                s = k + rng.choice("sxe ")
            elif m == 2:
                s = " " + k
            elif m == 3:
                i = rng.randrange(len(k))
                s = k[:i] + rng.choice(junk) + k[i + 1:]
            elif m == 4:
                s = k.replace("gray", "graay").replace("e", "е", 1)  # cyrillic e
            else:
                s = k.replace("k", "K", 1).replace("s", "ſ", 1).replace("i", "ı", 1)
        else:
            s = "".join(rng.choice(junk + "abcdef0123") for _ in range(rng.randrange(0, 12)))
        if ref_color(s) is None:
            cases.append((s, "noncolour"))
    # valid colours padded with white space: Qt does not trim, so these are not colours
    pads = [" ", "\t", "\n", "\r", "\u00a0", "\u2003", "\u3000", "\ufeff", "\x0b", "\x0c", "\u0085", "  "]
    for _ in range(120 if tier == "quick" else 1200):
        base = rng.choice(("#fff", "#8abc", "#102030", "#80102030", "red", "Transparent", rng.choice(kws),
                           "#" + "".join(rng.choice(HEX) for _ in range(rng.choice((3, 4, 6, 8))))))
        r = rng.random()
        s = (rng.choice(pads) if r < 0.6 else "") + base + (rng.choice(pads) if r > 0.3 else "")
        if ref_color(s) is None:
            cases.append((s, "padded"))
    # a colour wrapped in (or touching) quote characters is another string, and no colour
    for _ in range(60 if tier == "quick" else 600):
        base = rng.choice(("red", "#fff", "#8abc", "#102030", "#80102030", "transparent", rng.choice(kws)))
        l = rng.choice(("'", '"', "''", '""', "`", ""))
        r_ = rng.choice(("'", '"', "''", '""', "`", "")) if rng.random() < 0.5 else l
        s = l + base + r_
        if ref_color(s) is None:
            cases.append((s, "quoted"))
    cases += [(s, "noncolour") for s in ("", "#", "##fff", "0xfff", "fff", "ffffff", "rgb(1,2,3)", "#ffffffffff",
                                          "rebeccapurple", "none", "currentColor", "grey50", "light gray")]
    return cases


def qml_string(s, spell=None, quote='"'):
    """spell = (position, form): that character is written as an escape sequence (the string denoted stays the same).
    quote: the delimiter; the other quote character is written bare."""
    out = []
    for i, c in enumerate(s):
        if spell and i == spell[0] and ord(c) < 0x80:
            out.append({"x": "\\x%02x", "u4": "\\u%04x", "ub2": "\\u{%02x}", "ub4": "\\u{%04x}", "ub3": "\\u{%03X}"}[spell[1]] % ord(c))
            continue
        if c == "\\":
            out.append("\\\\")
        elif c == quote:
            out.append("\\" + quote)
        elif c == "\n":
            out.append("\\n")
        elif c == "\t":
            out.append("\\t")
        elif ord(c) < 0x20:
            out.append("\\x%02x" % ord(c))
        else:
            out.append(c)
    return quote + "".join(out) + quote


def run(tier, seed, replay=None):
    v = common.Verdict("C19", tier, seed)
    rng = common.rng_for(seed, "C19", tier)
    cases = workload(rng, tier)
    if replay:
        rp = json.load(open(replay))
        cases = [(rp["string"], "replay")]
    d = common.workdir("c19")
    inp = os.path.join(d, "in.jsonl")
    outp = os.path.join(d, "out.jsonl")
    with open(inp, "w") as f:
        for s, _ in cases:
            f.write(json.dumps(s) + "\n")
    p = subprocess.run([common.QVH, "color", "--in", inp, "--out", outp], capture_output=True, text=True, timeout=600)
    if p.returncode != 0:
        raise common.HarnessError("qvh color failed: " + p.stderr[-1000:])
    outs = [json.loads(l) for l in open(outp)]
    if len(outs) != len(cases):
        raise common.HarnessError("qvh color answered %d of %d" % (len(outs), len(cases)))
    classes = {}
    accepted = rejected = 0
    distinct = set()
    samples = []
    for (s, cls), o in zip(cases, outs):
        exp = ref_color(s)
        if "panic" in o:
            v.violation("panic", "Color::from_str(%r) panicked: %s" % (s, o["panic"]), {"string": s, "observed": o})
            continue
        if "rgb" in o:
            got = tuple(o["rgb"]) + (255,)
        elif "rgba" in o:
            got = tuple(o["rgba"])
        else:
            got = None
        classes[cls] = classes.get(cls, 0) + 1
        if got is None:
            rejected += 1
        else:
            accepted += 1
        distinct.add((cls, got))
        if got != exp:
            kind = "wrong-channels" if (got is not None and exp is not None) else (
                "accepted-noncolour" if exp is None else "rejected-colour")
            v.violation("%s:%s" % (kind, cls), "Color::from_str(%r) = %r, reference %r" % (s, got, exp),
                        {"string": s, "expected": exp, "observed": o, "class": cls})
        elif len(samples) < 5 and rng.random() < 0.001:
            samples.append({"string": s, "class": cls, "channels_rgba": got})

    # ---- end to end through the .ui for a sample, in three positions
    n_e2e = 150 if tier == "quick" else 1500
    picks = [rng.choice(cases) for _ in range(n_e2e)]
    # the .ui path has its own code between the string and the parser: every padded / near-miss class goes through it
    picks += [c for c in cases if c[1] in ("padded", "quoted")]
    picks += rng.sample([c for c in cases if c[1] == "noncolour"], 150 if tier == "quick" else 1500)
    picks += rng.sample([c for c in cases if c[1] == "keyword"], 100 if tier == "quick" else 740)
    picks += [("", "noncolour"), ("#", "noncolour"), (" ", "noncolour"), ("#abc", "hex3"), ("#8abc", "hex4"), ("#0a0b0c", "hex68"), ("#800a0b0c", "hex68"),
              ("Transparent", "keyword"), ("DarkSlateGray", "keyword"), ("darkslategrey", "keyword")]
    if replay:
        picks = cases
    jobs = []
    for i, (s, cls) in enumerate(picks):
        # a quarter of the colours have one character written as an escape sequence: the string is the same colour
        spell = (rng.randrange(len(s)), rng.choice(("x", "u4", "ub2", "ub4", "ub3"))) if (s and i % 4 == 0 and ref_color(s) is not None) else None
        # the delimiter is the quote character the string does not hold (so that it is written without escapes), else random
        quote = "'" if ('"' in s and "'" not in s) else '"' if "'" in s else rng.choice("\"\"\"'")
        lit = qml_string(s, spell, quote)
        # every third document also carries a warning (versioned import): an error next to a warning is still an error
        warn = i % 3 == 1
        src = ("import qmluic.QtWidgets%s\nQColorDialog {\n currentColor: %s\n"
               " QGraphicsView { backgroundBrush: %s }\n"
               " QLabel { palette.window: %s; palette.disabled.text: %s }\n}\n" % (" 1.0" if warn else "", lit, lit, lit, lit))
        jobs.append({"id": "e%d" % i, "source": src, "modes": ["generate"], "want": ["ui"]})
    # digit escapes: "\\1" is an octal escape (a control character) in ECMAScript and no escape at all in QML -- whichever reading a
    # tool takes, "#\\1\\2\\3" is not the colour #123: it has to be refused
    raw = []
    for k in range(24 if tier == "quick" else 240):
        col = "#" + "".join(rng.choice("1234567abcdef0") for _ in range(rng.choice((3, 4, 6, 8))))
        pos = [i for i, c in enumerate(col) if c in "1234567"]
        if not pos:
            continue
        esc = set(rng.sample(pos, rng.randint(1, len(pos))))
        lit = '"' + "".join(("\\" + c) if i in esc else c for i, c in enumerate(col)) + '"'
        raw.append((lit, col))
        jobs.append({"id": "r%d" % (len(raw) - 1), "source": "import qmluic.QtWidgets\nQColorDialog {\n currentColor: %s\n"
                     " QGraphicsView { backgroundBrush: %s }\n}\n" % (lit, lit), "modes": ["generate"], "want": ["ui"]})
    out = common.translate(jobs, tag="c19")
    n_raw = 0
    for k, (lit, col) in enumerate(raw):
        rs = out.results.get("r%d" % k)
        if not rs:
            v.inconc("no result for literal %s" % lit)
        elif rs[0].get("built") and not rs[0].get("has_error") and not rs[0].get("has_syntax_error"):
            v.violation("e2e-accepted-noncolour:digit-escape", "the literal %s (digit escapes; not the string %r under any reading) is accepted"
                        % (lit, col), {"literal": lit, "ui": rs[0].get("ui")})
        else:
            n_raw += 1
    e2e = 0
    for i, (s, cls) in enumerate(picks):
        rs = out.results.get("e%d" % i)
        if not rs:
            v.inconc("no result for end-to-end case %r" % s)
            continue
        r = rs[0]
        exp = ref_color(s)
        if r.get("panic"):
            v.violation("e2e-panic", "panic translating colour %r: %s" % (s, r["panic"]), {"string": s, "result": r})
            continue
        ok = r.get("built") and not r.get("has_error")
        if exp is None:
            if ok:
                v.violation("e2e-accepted-noncolour:%s" % cls, "non-colour %r accepted into the .ui" % s,
                            {"string": s, "ui": r.get("ui")})
            else:
                e2e += 1
            continue
        if not ok:
            v.violation("e2e-rejected-colour:%s" % cls, "colour %r rejected: %r" % (s, r.get("diagnostics")),
                        {"string": s, "diagnostics": r.get("diagnostics")})
            continue
        try:
            root = uiparse.parse(r["ui"])
        except uiparse.UiSyntaxError as e:
            v.violation("e2e-xml", "ill-formed .ui for colour %r: %s" % (s, e), {"string": s, "ui": r["ui"]})
            continue
        cols = [n for n in root.walk() if n.tag == "color"]
        want = ("color", str(exp[3]), str(exp[0]), str(exp[1]), str(exp[2]))
        # currentColor, backgroundBrush, window x3 groups, disabled.text
        if len(cols) != 6:
            v.violation("e2e-count", "expected 6 <color> elements for %r, found %d" % (s, len(cols)),
                        {"string": s, "ui": r["ui"]})
            continue
        bad = [uiparse.decode_value(c) for c in cols if uiparse.decode_value(c) != want]
        if bad:
            v.violation("e2e-wrong-channels:%s" % cls, "colour %r embedded as %r, reference %r" % (s, bad[0], want),
                        {"string": s, "expected": want, "observed": bad, "ui": r["ui"]})
        else:
            e2e += 1
            if len(samples) < 5:
                samples.append({"string": s, "class": cls, "embedded": want, "positions": 6})
    for i in out.cpu_violations:
        v.violation("cpu", "CPU budget exceeded for %s" % i, {"job": i})
    for i, why in out.inconclusive:
        v.inconc("%s: %s" % (i, why))

    v.assumptions = [
        "reference decoder and SVG 1.1 keyword table of /verif (qv/svgcolors.py, cross-checked against two unrelated tables)",
        "the property text defines the accepted forms: #rgb #argb #rrggbb #aarrggbb, SVG keywords case-insensitively, transparent",
    ]
    # the colour on disk is the colour of the CURRENT source (an edit that keeps the length of the form: permuted channels)
    _w = regen.HEAD + "QColorDialog {\n currentColor: \"%s\"\n QGraphicsView { backgroundBrush: \"%s\" }\n QLabel { palette.window: \"%s\" }\n}\n"
    n_hist = 0 if replay else regen.regenerated_equals_fresh(v, "c19hist", [
        (_w % (a, a, a), _w % (b, b, b)) for a, b in (("#ff0000", "#00ff00"), ("red", "blue"), ("#123", "#321"), ("#80ff0000", "#ff800000"),
                                                     ("lime", "blue"), ("#0000ff", "blue"), ("#102030", "#302010"))
    ], "stale-colour-after-edit", "a colour edited")
    return v.finish(
        histories_on_disk=n_hist, evaluations=len(cases) + len(picks),
        distinct_nontrivial=len(distinct),
        rule="every 3- and 4-digit lower-case hex string, sampled mixed-case / 6- / 8-digit ones, every SVG keyword in 5 "
             "letter cases, and near-miss / junk strings; distinct = distinct (case class, decoded channel tuple or rejection)",
        samples=samples,
        exhaustive=False,
        exhaustive_subspaces={"hex3_lowercase": 4096, "hex4_lowercase": 65536, "svg_keywords": len(SVG_COLORS)},
        by_class=classes, accepted=accepted, rejected=rejected, end_to_end_checked=e2e, digit_escape_literals_refused=n_raw,
    )
