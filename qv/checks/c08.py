"""C08 — determinism: identical inputs give byte-identical outputs."""
import copy
import hashlib
import json
import os
import subprocess

from .. import regen, common, doccheck, gen_doc
from ..gen_doc import DocGen


def make_docs(rng, n):
    docs = []
    for i in range(n):
        g = DocGen(rng, hostile_strings=False, adversarial_names=False, dynamic=0.4, callbacks=0.5,
                   max_depth=rng.choice((2, 3, 4)), max_fanout=rng.choice((3, 5)), max_objects=rng.choice((4, 8, 14)),
                   max_bindings=rng.choice((12, 20, 30)))
        d = g.make()
        d.fault = None
        if i % 4 == 3:
            # several error diagnostics: their set must be stable too
            d2 = copy.deepcopy(d)
            ok = False
            for _ in range(3):
                f = gen_doc.plant_fault(rng, d2, rng.choice(("unknown-property", "ill-typed", "read-only", "unknown-signal",
                                                             "unsupported-syntax")))
                ok = ok or f is not None
            if ok:
                d2.fault = "multi"
                d = d2
        docs.append(d)
    return docs


class RawDoc:
    def __init__(self, source):
        self.source, self.type_name, self.fault = source, "MyType", None


def targeted_docs(rng, n):
    """Documents aimed at the places where an unordered container meets the output."""
    docs = []
    for k in range(n):
        lines = ["import qmluic.QtWidgets", "QWidget {", "    id: root",
                 "    QSpinBox { id: sp }", "    QCheckBox { id: cb }", "    QLineEdit { id: le }", "    VfWidget {", "        id: vf"]
        # many dynamic bindings and callbacks on ONE object, the two system includes first used in different bodies
        props = [("ival", "Math.max(sp.value, %d)"), ("ival2", "Math.min(sp.value, %d)"), ("ival3", "sp.value + %d"),
                 ("bval", "cb.checked"), ("bval2", "!cb.checked"), ("sval", "le.text"), ("sval2", "le.text + \"%d\""),
                 ("toolTip", "qsTr(\"v%d\") + le.text"), ("enabled", "cb.checked"), ("windowTitle", "le.text"),
                 ("dval", "sp.value as double"), ("uval", "sp.value as uint"), ("statusTip", "cb.checked ? \"a\" : \"b%d\"")]
        rng.shuffle(props)
        for (p, e) in props[:rng.randint(4, len(props))]:
            lines.append("        %s: %s" % (p, e % rng.randint(0, 9) if "%d" in e else e))
        # (the third system header, <cmath>, is always needed)
        lines.append("        dval2: (sp.value as double) %% %d.5" % rng.randint(1, 9))
        cbs = [("onIvalChanged", "console.log(\"i\")"), ("onFired", "console.warn(vf.ival)"), ("onTold", "function(s: QString) { console.info(s) }"),
               ("onPoked", "function(a: int) { vf.ival2 = Math.max(a, 1) }"), ("onDvalChanged", "console.error(vf.dval)"),
               ("onTriple", "function(a: int, b: QString) { vf.sval2 = b }"), ("onModeChanged", "vf.doIt()")]
        rng.shuffle(cbs)
        for (c, e) in cbs[:rng.randint(2, len(cbs))]:
            lines.append("        %s: %s" % (c, e))
        # palette: widget-wide roles plus explicit groups that do not redefine them
        roles = ["window", "text", "base", "button", "link", "mid"]
        for r in rng.sample(roles, rng.randint(1, 3)):
            lines.append("        palette.%s: \"%s\"" % (r, rng.choice(("red", "#123", "black"))))
        for grp in rng.sample(["active", "inactive", "disabled"], rng.randint(1, 3)):
            lines.append("        palette.%s.%s: \"%s\"" % (grp, rng.choice(roles), rng.choice(("gray", "#fff"))))
        for m in rng.sample(["family: \"Mono\"", "pointSize: 9", "bold: cb.checked", "italic: true", "underline: !cb.checked", "kerning: false"], rng.randint(2, 5)):
            lines.append("        font.%s" % m)
        lines += ["    }", "}", ""]
        docs.append(RawDoc("\n".join(lines)))
    # error documents whose diagnostics come out of unordered containers: several dynamic members in object-typed groups
    # (`nested dynamic binding`), several faults on one object
    for k in range(max(2, n // 4)):
        members = [("defaultSectionSize", "sp.value"), ("visible", "cb.checked"), ("minimumSectionSize", "sp.value + %d" % k),
                   ("highlightSections", "!cb.checked"), ("stretchLastSection", "cb.checked && true"), ("cascadingSectionResizes", "cb.checked")]
        rng.shuffle(members)
        hh = members[:rng.randint(2, len(members))]
        rng.shuffle(members)
        vh = members[:rng.randint(2, len(members))]
        lines = ["import qmluic.QtWidgets", "QWidget {", "    QSpinBox { id: sp }", "    QCheckBox { id: cb }", "    QTableView {"]
        lines += ["        horizontalHeader.%s: %s" % m for m in hh]
        lines.append("        verticalHeader { %s }" % "; ".join("%s: %s" % m for m in vh))
        lines += ["        noSuchA: 1", "        noSuchB: sp.value", "        toolTip: 1 + cb.checked", "    }",
                  "    QTreeView { header { %s } }" % "; ".join("%s: %s" % m for m in hh), "}", ""]
        d = RawDoc("\n".join(lines))
        d.fault = "multi"
        docs.append(d)
    # several signal handlers (and unknown members) in ONE nested-object / attached / gadget map: each is an error of its own
    for k in range(max(2, n // 4)):
        hs = ["onSectionClicked: function(i: int) { sp.value = i }", "onSectionPressed: function(i: int) { sp.value = i + %d }" % k,
              "onSectionDoubleClicked: function(i: int) {}", "onSectionEntered: {}", "onGeometriesChanged: sp.clear()",
              "onSortIndicatorChanged: {}", "onNoSuchSignal: {}"]
        rng.shuffle(hs)
        hh = hs[:rng.randint(2, 6)]
        rng.shuffle(hs)
        vh = hs[:rng.randint(2, 6)]
        lines = ["import qmluic.QtWidgets", "QWidget {", "    QSpinBox { id: sp }", "    QGridLayout {", "    QTableView {"]
        lines += ["        horizontalHeader.%s" % h for h in hh]
        lines.append("        verticalHeader {\n            %s\n        }" % "\n            ".join(vh))
        lines += ["        QLayout.onRowChanged: {}", "        QLayout.onColumnChanged: {}", "        QLayout.onDestroyed: {}",
                  "        font.onBoldChanged: {}", "        font.onFamilyChanged: {}", "        font { onItalicChanged: {}; onKerningChanged: {} }",
                  "    }", "    }", "}", ""]
        d = RawDoc("\n".join(lines))
        d.fault = "multi"
        docs.append(d)
    # a gadget group with one dynamic member (the group is then handled by both passes) and several ill-typed constant members:
    # each error is reported as often in every run
    for k in range(max(2, n // 4)):
        bad = ['bold: "yes"', 'italic: "no"', "pointSize: true", 'underline: "u"', "family: 1", 'strikeOut: "s"', "kerning: 2.5"]
        rng.shuffle(bad)
        bad = bad[:rng.randint(2, 5)]
        dyn = rng.choice(("weight: sp.value", "pixelSize: sp.value + %d" % k, "overline: cb.checked"))
        members = bad + [dyn]
        rng.shuffle(members)
        lines = ["import qmluic.QtWidgets", "QWidget {", "    QSpinBox { id: sp }", "    QCheckBox { id: cb }", "    QLabel {"]
        if k % 2:
            lines += ["        font.%s" % m for m in members]
        else:
            lines.append("        font { %s }" % "; ".join(members))
        lines += ["    }", "}", ""]
        d = RawDoc("\n".join(lines))
        d.fault = "multi"
        docs.append(d)
    # one attached type written in two spellings on one child (base class and concrete layout class)
    for k in range(max(2, n // 4)):
        kids = []
        for i in range(rng.randint(2, 5)):
            a, b = rng.sample(["row: %d" % (i // 2), "column: %d" % (i % 2), "rowStretch: %d" % (i + 1), "columnStretch: %d" % (i + 2), "alignment: Qt.AlignLeft"], 2)
            first, second = rng.sample(["QLayout", "QGridLayout"], 2)
            kids.append("        QLabel { %s.%s; %s.%s }" % (first, a, second, b))
        d = RawDoc("import qmluic.QtWidgets\nQWidget {\n    QGridLayout {\n%s\n    }\n}\n" % "\n".join(kids))
        d.fault = "multi"
        docs.append(d)
    return docs


def fingerprint(r):
    diags = tuple(sorted((d["kind"], d["start"], d["end"], d["message"]) for d in r.get("diagnostics", [])))
    return (r.get("built"), r.get("ui_hash"), r.get("ui_compact_hash"), r.get("header_hash"), diags, r.get("panic"))


def run(tier, seed, replay=None):
    v = common.Verdict("C08", tier, seed)
    rng = common.rng_for(seed, "C08", tier)
    n = 60 if tier == "quick" else 400
    batches, reps = (6, 4) if tier == "quick" else (10, 6)
    docs = make_docs(rng, n) + targeted_docs(rng, n // 2)
    if replay:
        rp = json.load(open(replay))
        docs = [d for d in docs if d.source == rp.get("qml")]
        if not docs:
            raise common.HarnessError("replay case not regenerated (different seed/tier?)")
    seen = [dict() for _ in docs]      # fingerprint -> first result
    orders = [set() for _ in docs]
    evaluations = 0
    for b in range(batches):
        # fresh processes per batch; inside a process the documents come in a shuffled order, so the number of
        # translations (and hash maps created) before a given document differs from batch to batch
        idx = list(range(len(docs)))
        rng.shuffle(idx)
        jobs = [{"id": "d%d" % i, "source": docs[i].source, "modes": ["generate"], "reps": reps,
                 "want": ["order"]} for i in idx]
        out = common.translate(jobs, shards=min(common.NCPU, max(2, len(jobs) // 4)), tag="c08_%d" % b)
        for i in idx:
            rs = out.results.get("d%d" % i)
            if not rs:
                v.inconc("no result")
                continue
            for r in rs:
                evaluations += 1
                seen[i].setdefault(fingerprint(r), r)
                orders[i].add(tuple(r.get("order", [])))
    distinct = 0
    samples = []
    order_hist = []
    for i, d in enumerate(docs):
        fps = seen[i]
        if not fps:
            continue
        if len(fps) > 1:
            (fa, ra), (fb, rb) = list(fps.items())[:2]
            what = [nm for nm, x, y in zip(("built", "ui", "ui_compact", "header", "diagnostics", "panic"), fa, fb) if x != y]
            # fetch the two differing artefacts for the witness
            rp = {"qml": d.source, "differs_in": what, "a": {k: ra.get(k) for k in ("ui_hash", "header_hash", "diagnostics")},
                  "b": {k: rb.get(k) for k in ("ui_hash", "header_hash", "diagnostics")}}
            v.violation("nondeterministic:" + "+".join(what), "%d different results for one document over %d translations (differs in %s)"
                        % (len(fps), batches * reps, ", ".join(what)), rp)
            continue
        order_hist.append(len(orders[i]))
        if len(orders[i]) >= 2:
            distinct += 1
        if len(samples) < 3 and len(orders[i]) >= 3 and len(d.source) < 2500:
            r0 = list(fps.values())[0]
            samples.append({"qml": d.source[:1500], "translations": batches * reps, "distinct_binding_visit_orders_observed": len(orders[i]),
                            "ui_hash": r0.get("ui_hash"), "header_hash": r0.get("header_hash"), "diagnostics": len(r0.get("diagnostics", []))})

    # ---- through the CLI: fresh processes, and the second run must not touch the outputs
    n_cli = 12 if tier == "quick" else 60
    cli_dir = common.workdir("c08cli")
    cli_checked = 0
    for i, d in enumerate([x for x in docs if not x.fault][:n_cli]):
        pdir = os.path.join(cli_dir, "p%d" % i)
        os.makedirs(pdir)
        with open(os.path.join(pdir, "Form.qml"), "w") as f:
            f.write(d.source)
        outs = []
        stats = []
        for k in range(3):
            p = subprocess.run([common.CLI, "generate-ui", "--foreign-types", common.METATYPES, "--foreign-types", common.VF_TYPES,
                                "Form.qml"], cwd=pdir, capture_output=True, text=True, env=dict(os.environ, NO_COLOR="1"), timeout=120)
            files = {}
            st = {}
            for fn in ("form.ui", "uisupport_form.h"):
                fp = os.path.join(pdir, fn)
                if os.path.exists(fp):
                    files[fn] = open(fp, "rb").read()
                    s = os.stat(fp)
                    st[fn] = (s.st_ino, s.st_mtime_ns)
            outs.append((p.returncode, p.stderr, files))
            stats.append(st)
            if k == 0:
                # next run in a clean directory state for comparison of fresh outputs
                first = outs[0]
        cli_checked += 1
        # the outputs depend on the inputs only, not on what the output paths held before: a shorter revision generated over
        # the longer one equals the same revision generated into an empty directory
        short = "import qmluic.QtWidgets\nQWidget { QCheckBox { id: c } QLabel { enabled: c.checked } }\n"
        fresh = os.path.join(cli_dir, "p%d_fresh" % i)
        os.makedirs(fresh)
        got = {}
        for where in (pdir, fresh):
            with open(os.path.join(where, "Form.qml"), "w") as f:
                f.write(short)
            subprocess.run([common.CLI, "generate-ui", "--foreign-types", common.METATYPES, "--foreign-types", common.VF_TYPES, "Form.qml"],
                           cwd=where, capture_output=True, text=True, env=dict(os.environ, NO_COLOR="1"), timeout=120)
            got[where] = {fn: open(os.path.join(where, fn), "rb").read() for fn in ("form.ui", "uisupport_form.h") if os.path.exists(os.path.join(where, fn))}
        if got[pdir] != got[fresh]:
            v.violation("cli-history-dependent", "a revision generated over the outputs of an earlier (longer) revision differs from the same "
                        "revision generated into an empty directory: %r" % {fn: (len(got[pdir].get(fn, b"")), len(got[fresh].get(fn, b""))) for fn in got[fresh]},
                        {"qml_before": d.source, "qml_now": short})
        if outs[0][0] != outs[1][0] or outs[0][2] != outs[1][2] or outs[1][2] != outs[2][2] or outs[0][1] != outs[1][1]:
            v.violation("cli-nondeterministic", "CLI runs on the same input differ (status/stderr/outputs)",
                        {"qml": d.source, "status": [o[0] for o in outs], "stderr": [o[1][-500:] for o in outs]})
        elif stats[0] != stats[1] or stats[1] != stats[2]:
            v.violation("cli-rewrote-unchanged", "re-run on unchanged input touched the outputs: %r -> %r" % (stats[0], stats[1]),
                        {"qml": d.source, "stats": [str(s) for s in stats]})
    # ---- several sources in one invocation, some of them failing: which diagnostics appear and which outputs exist must not
    # vary from process to process
    multi_dir = common.workdir("c08multi")
    n_multi = 0
    good = "import qmluic.QtWidgets\nQWidget { QCheckBox { id: c } QLabel { enabled: c.checked; text: \"%s\" } }\n"
    bad = "import qmluic.QtWidgets\nQWidget { %s: 1 }\n"
    # a warning-only source in front of others: what is reported for a source must not depend on the sources before it
    warn = "import qmluic.QtWidgets 6.2\nQWidget { QLabel { text: \"%s\" } }\n"
    for srcs in (["WarnA.qml", "Good1.qml"], ["Good1.qml", "WarnA.qml", "Good2.qml", "WarnB.qml", "Good3.qml"], ["WarnA.qml", "WarnB.qml", "Good1.qml"]):
        pdir = os.path.join(multi_dir, "w_" + "_".join(x[:-4] for x in srcs))
        os.makedirs(pdir)
        # one directory per source: a source's directory is scanned for components, and the other files found there are reported too
        srcs = [os.path.join("d%d" % i, fn) for i, fn in enumerate(srcs)]
        for fn in srcs:
            os.makedirs(os.path.join(pdir, os.path.dirname(fn)))
            with open(os.path.join(pdir, fn), "w") as f:
                f.write(good % fn if "Good" in fn else warn % fn)
        base_cmd = [common.CLI, "generate-ui", "--foreign-types", common.METATYPES]
        whole = subprocess.run(base_cmd + srcs, cwd=pdir, capture_output=True, text=True, env=dict(os.environ, NO_COLOR="1"), timeout=120)
        parts = [subprocess.run(base_cmd + [fn], cwd=pdir, capture_output=True, text=True, env=dict(os.environ, NO_COLOR="1"), timeout=120) for fn in srcs]
        n_multi += 1 + len(srcs)
        if whole.returncode == 0 and all(p.returncode == 0 for p in parts) and whole.stderr != "".join(p.stderr for p in parts):
            v.violation("cli-history-dependent", "what generate-ui %r reports differs from what it reports for the same sources one by one "
                        "(diagnostics of a source depend on the sources named before it)" % srcs,
                        {"sources": srcs, "together": whole.stderr[-1500:], "one_by_one": "".join(p.stderr for p in parts)[-1500:]})
    scenarios = [["BadA.qml", "BadB.qml"], ["Good1.qml", "BadA.qml"], ["Good1.qml", "BadA.qml", "Good2.qml", "BadB.qml"],
                 ["Good1.qml", "Good2.qml", "Good3.qml", "BadB.qml", "BadA.qml"], ["BadB.qml", "Good1.qml", "Good2.qml"]]
    for si, srcs in enumerate(scenarios):
        results = []
        for rep in range(6 if tier == "quick" else 24):
            pdir = os.path.join(multi_dir, "s%d_%d" % (si, rep))
            os.makedirs(pdir)
            for fn in srcs:
                with open(os.path.join(pdir, fn), "w") as f:
                    f.write(good % fn if fn.startswith("Good") else bad % ("noSuch" + fn[3]))
            p = subprocess.run([common.CLI, "generate-ui", "--foreign-types", common.METATYPES] + srcs, cwd=pdir, capture_output=True, text=True,
                               env=dict(os.environ, NO_COLOR="1"), timeout=120)
            produced = tuple(sorted((fn, hashlib.sha256(open(os.path.join(pdir, fn), "rb").read()).hexdigest())
                                    for fn in os.listdir(pdir) if not fn.endswith(".qml")))
            results.append((p.returncode, p.stderr, produced))
            n_multi += 1
        if len(set(results)) > 1:
            a, b = sorted(set(results))[:2]
            v.violation("cli-nondeterministic", "the same multi-source invocation %r gives different results in fresh processes "
                        "(status / diagnostics / set of outputs)" % srcs,
                        {"sources": srcs, "a": {"status": a[0], "stderr": a[1][-600:], "outputs": [x[0] for x in a[2]]},
                         "b": {"status": b[0], "stderr": b[1][-600:], "outputs": [x[0] for x in b[2]]}})
    if order_hist and max(order_hist) < 2:
        v.inconc("hash seeds did not vary: every document showed a single binding visit order")
    v.assumptions = ["hash-order diversity is measured, not assumed: the hook reports the order in which the real HashMaps were iterated"]
    # same inputs, same outputs -- whatever the output directory held before (edits that leave one of the two outputs unchanged)
    _w = regen.HEAD + "QWidget {\n    QCheckBox { id: sel }\n    QLineEdit { id: e1 }\n    QLineEdit { id: e2 }\n%s}\n"
    n_hist = 0 if replay else regen.regenerated_equals_fresh(v, "c08hist", [
        (_w % "    QLabel { text: e1.text }\n", _w % "    QLabel { text: e2.text }\n"),
        (_w % "    QPushButton { onClicked: e1.clear() }\n", _w % "    QPushButton { onClicked: e2.clear() }\n"),
        (_w % "    QLabel { text: e1.text; enabled: sel.checked }\n", _w % "    QLabel { text: e1.text; enabled: true }\n"),
        (_w % "    QLabel { text: \"abc\" }\n", _w % "    QLabel { text: \"abd\" }\n"),
    ], "cli-history-dependent", "outputs of an earlier revision present")
    return v.finish(
        histories_on_disk=n_hist, evaluations=evaluations + 3 * cli_checked + n_multi, distinct_nontrivial=distinct,
        rule="hash-heavy documents (12-30 bindings per object, gadgets, palettes, several callbacks, both system includes, "
             "several error diagnostics) translated %d times each in %d batches of fresh processes and shuffled order, "
             "plus 3 CLI runs; distinct non-trivial = documents for which >= 2 distinct binding visit orders were observed "
             "while all outputs stayed identical" % (batches * reps, batches),
        samples=samples, documents=len(docs), translations_per_document=batches * reps,
        distinct_visit_orders_per_document={"min": min(order_hist or [0]), "max": max(order_hist or [0]),
                                            "mean": round(sum(order_hist) / max(1, len(order_hist)), 1)},
        cli_documents=cli_checked, floor=10,
    )
