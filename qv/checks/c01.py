"""C01 — generated binding code computes the value of its source expression."""
import json
import os
from concurrent.futures import ThreadPoolExecutor

from .. import regen, common, cxxmodel, cxxrun, exprdoc, gen_expr as ge


def translate_docs(docs, tag, want=("ui", "header")):
    """Translate; bindings rejected by qmluic are dropped (and reported) and the rest is translated again."""
    rejected = []
    results = [None] * len(docs)
    todo = list(range(len(docs)))
    for attempt in range(6):
        jobs = [{"id": "d%d" % i, "source": docs[i].source, "modes": ["generate"], "want": list(want), "defassign": True}
                for i in todo]
        out = common.translate(jobs, tag="%s_%d" % (tag, attempt))
        again = []
        for i in todo:
            rs = out.results.get("d%d" % i)
            if not rs:
                continue
            r = rs[0]
            results[i] = r
            if r.get("panic") or r.get("has_syntax_error"):
                continue
            if r.get("has_error") and hasattr(docs[i], "drop_rejected"):
                bad = docs[i].drop_rejected(r.get("diagnostics", []))
                for b in bad:
                    msgs = [d["message"] for d in r["diagnostics"] if b.span[0] <= d["start"] <= b.span[1]]
                    rejected.append((b, msgs))
                if bad and docs[i].bindings:
                    again.append(i)
        todo = again
        if not todo:
            break
    return results, rejected


def spelled_docs(rng):
    """One document per spelled literal (strings.SPELLED_LITERALS): `sval: edit.text + <spelling>`.  A spelling qmluic does not
    support makes the document a syntax error (then there is nothing to run); an accepted one must compute the denoted string."""
    from .. import strings
    out = []
    for sp, den in strings.SPELLED_LITERALS:
        d = exprdoc.ExprDoc.__new__(exprdoc.ExprDoc)
        d.rng, d.objects, d.targets, d.features = rng, [ge.ObjSpec(i, c) for i, c in exprdoc.SOURCES], ["t0"], set()
        lit = ge.N("lit", ge.STR, v=(den, sp), const=True)
        prog = ge.N("bin", ge.STR, (ge.N("prop", ge.STR, (ge.N("obj", ge.PTR, v="edit", const=True),), v="text"), lit), v="+")
        d.bindings = [exprdoc.Binding("t0", "sval", ge.STR, prog, ge.print_program(prog, None))]
        d.source = d.to_qml()
        d.optional = True
        out.append(d)
    return out


def regenerated_code_is_current(v, rng):
    """The code that ends up on disk after a dependency of the source changed (the class of a component it instantiates) must be
    the code of the CURRENT inputs: the eval functions are typed from that class.  Compared with a generation into an empty tree."""
    import subprocess
    wd = common.workdir("c01regen")
    env = dict(os.environ, NO_COLOR="1")
    n = 0
    for k, (c1, c2) in enumerate((("QSpinBox", "QDoubleSpinBox"), ("QDoubleSpinBox", "QSpinBox"), ("QSlider", "QDoubleSpinBox"))):
        panel = ("import qmluic.QtWidgets\nQWidget {\n    Gauge { id: level }\n    Gauge { id: limit }\n"
                 "    QCheckBox { checked: level.value > limit.value }\n    QLabel { text: \"%d\" }\n}\n" % k)
        dirs = {}
        for tag in ("history", "fresh"):
            d = os.path.join(wd, "%s%d" % (tag, k))
            os.makedirs(d)
            open(os.path.join(d, "Panel.qml"), "w").write(panel)
            dirs[tag] = d
        cmd = [common.CLI, "generate-ui", "--foreign-types", common.METATYPES, "Panel.qml"]
        open(os.path.join(dirs["history"], "Gauge.qml"), "w").write("import qmluic.QtWidgets\n%s {}\n" % c1)
        p1 = subprocess.run(cmd, cwd=dirs["history"], capture_output=True, env=env, timeout=120)
        open(os.path.join(dirs["history"], "Gauge.qml"), "w").write("import qmluic.QtWidgets\n%s {}\n" % c2)
        p2 = subprocess.run(cmd, cwd=dirs["history"], capture_output=True, env=env, timeout=120)
        open(os.path.join(dirs["fresh"], "Gauge.qml"), "w").write("import qmluic.QtWidgets\n%s {}\n" % c2)
        p3 = subprocess.run(cmd, cwd=dirs["fresh"], capture_output=True, env=env, timeout=120)
        if p1.returncode or p2.returncode or p3.returncode:
            v.inconc("regeneration scenario refused: %s" % (p1.stderr + p2.stderr + p3.stderr).decode("utf-8", "replace")[-200:])
            continue
        h_hist = open(os.path.join(dirs["history"], "uisupport_panel.h")).read()
        h_fresh = open(os.path.join(dirs["fresh"], "uisupport_panel.h")).read()
        n += 1
        if h_hist != h_fresh:
            v.violation("stale-code-after-dependency-change", "Gauge.qml changed from %s to %s and Panel.qml was generated again: the support header "
                        "on disk is not the code of the current inputs (value types of level.value differ)" % (c1, c2),
                        {"qml": panel, "header_on_disk": h_hist, "header_of_current_inputs": h_fresh})
    return n


def run(tier, seed, replay=None):
    v = common.Verdict("C01", tier, seed)
    rng = common.rng_for(seed, "C01", tier)
    n_docs = 48 if tier == "quick" else 1200
    n_states = 24
    cxxmodel.ensure_model()
    docs = [exprdoc.ExprDoc(rng, n_targets=3, max_depth=rng.choice((2, 3, 4)), hostile_strings=(i % 5 == 4), gadget_members=(i % 3 == 1), doc_casts=(i % 3 != 2))
            for i in range(n_docs)]
    docs += spelled_docs(rng)
    if replay:
        rp = json.load(open(replay))
        docs = [d for d in docs if any(b.src == rp.get("program") for b in d.bindings)]
        if not docs:
            raise common.HarnessError("replay case not regenerated (different seed/tier?)")
    results, rejected = translate_docs(docs, "c01")
    base = common.workdir("c01")
    work = []
    n_undefined = n_defined = 0
    rej_msgs = {}
    for b, msgs in rejected:
        k = (msgs[0] if msgs else "?")[:70]
        rej_msgs[k] = rej_msgs.get(k, 0) + 1
    n_embedded_dynamic = n_constant_bindings = 0
    for i, (d, r) in enumerate(zip(docs, results)):
        if r is None:
            v.inconc("no translation result")
            continue
        if r.get("panic"):
            v.violation("panic", "translation panicked: %s" % r["panic"], {"qml": d.source})
            continue
        if not (r.get("built") and not r.get("has_error") and not r.get("has_syntax_error")) or not d.bindings:
            if not getattr(d, "optional", False):
                v.inconc("document still rejected: %r" % [x["message"] for x in r.get("diagnostics", [])][:2])
            continue
        missing = d.resolve_functions(r["header"])
        live = [bi for bi, b in enumerate(d.bindings) if b.func]
        # constant bindings are embedded in the .ui (C03); they have no eval function
        states = d.make_states(n_states)
        for b in d.bindings:
            if not b.func:
                dep = d.state_dependent(b, states)
                if dep:
                    n_embedded_dynamic += 1
                    v.violation("state-dependent-binding-without-code", "binding %s.%s has no eval function (it is treated as a constant) but its source "
                                "expression denotes %r in one state and %r in another" % (b.target, b.prop, dep[0], dep[1]),
                                {"program": b.src, "qml": d.source, "ui": r.get("ui")})
                else:
                    n_constant_bindings += 1
        expected = {}
        plan = []
        for si, st in enumerate(states):
            bis = []
            for bi in live:
                b = d.bindings[bi]
                try:
                    val, reads = ge.evaluate(b.prog, st, owner=b.target)
                    expected[(si, bi)] = cxxrun.encode_expected(b.t, val)
                    bis.append(bi)
                    n_defined += 1
                except ge.Undefined:
                    n_undefined += 1
            plan.append((si, bis))
        cd = os.path.join(base, "d%d" % i)
        try:
            cxxrun.write_case(cd, r["ui"], r["header"], exprdoc.driver_eval(d, states, plan))
            exprdoc.write_plan_files(cd, d, states, plan)
        except cxxmodel.UicError as e:
            v.inconc("mini-uic: %s" % e)
            continue
        work.append((i, d, cd, states, plan, expected, r))

    def build_and_run(item):
        i, d, cd, states, plan, expected, r = item
        ok, err = cxxrun.compile_case(cd)
        if not ok:
            return item, ("compile", err)
        return item, ("run", cxxrun.run_case(cd))

    distinct = set()
    samples = []
    n_pairs = 0
    san_reports = 0
    with ThreadPoolExecutor(max_workers=common.NCPU) as ex:
        for item, (kind, payload) in ex.map(build_and_run, work):
            i, d, cd, states, plan, expected, r = item
            if kind == "compile":
                if payload == "compiler timeout":
                    v.inconc("compiler timeout")
                else:
                    v.violation("does-not-compile", "support header does not compile against the API model: %s" % payload[-600:],
                                {"qml": d.source, "header": r["header"], "compiler": payload[-3000:]})
                continue
            status, events, err = payload
            got = {}
            current = None
            for e in events:
                if e.get("ev") == "begin":
                    current = e["tag"]
                elif e.get("ev") == "result":
                    got[e["tag"]] = cxxrun.decode(e["value"])
                    current = None
                elif e.get("ev") in ("unreachable", "oob", "runaway"):
                    pass
            results_by_b = {}
            for (si, bi), exp in expected.items():
                tag = "s%d.b%d" % (si, bi)
                b = d.bindings[bi]
                if tag in got:
                    n_pairs += 1
                    results_by_b.setdefault(bi, set()).add(got[tag])
                    if got[tag] != exp:
                        v.violation("wrong-value:%s" % b.t, "binding %s.%s in state %d evaluates to %r, source expression denotes %r"
                                    % (b.target, b.prop, si, got[tag], exp),
                                    {"program": b.src, "type": b.t, "state": states[si], "expected": exp, "observed": got[tag],
                                     "qml": d.source, "function": "eval" + b.func})
            if status != 0:
                # abnormal end: attribute it to the pair that was being evaluated
                where = current
                what = {cxxrun.EXIT_UNREACHABLE: "unreachable-marker-reached", cxxrun.EXIT_OOB: "model-out-of-range",
                        cxxrun.EXIT_SANITIZER: "sanitizer-report"}.get(status, "abnormal-exit-%s" % status)
                if status == "timeout":
                    v.inconc("run timeout")
                    continue
                if where:
                    si, bi = [int(x[1:]) for x in where.split(".")]
                    b = d.bindings[bi]
                    san_reports += 1
                    v.violation(what, "defined evaluation of %s.%s in state %d ended abnormally (%s): %s"
                                % (b.target, b.prop, si, what, err.strip().splitlines()[0][:200] if err.strip() else ""),
                                {"program": b.src, "type": b.t, "state": states[si], "qml": d.source, "stderr": err[-3000:],
                                 "function": "eval" + b.func})
                else:
                    v.inconc("driver ended with status %r outside an evaluation: %s" % (status, err[-300:]))
                continue
            for bi, vals in results_by_b.items():
                b = d.bindings[bi]
                nontrivial = len(vals) >= 2 and (b.prog.k == "prog" or sum(1 for _ in b.prog.walk()) >= 4)
                if nontrivial:
                    distinct.add(common.shash(b.src))
                    if len(samples) < 4 and len(b.src) < 400 and b.t not in [s["type"] for s in samples]:
                        si = next(si for (si, bj) in expected if bj == bi and ("s%d.b%d" % (si, bj)) in got)
                        samples.append({"type": b.t, "program": b.src, "state_excerpt": {k: states[si][k] for k in ("a", "spin", "chk")},
                                        "expected": repr(expected[(si, bi)]), "observed": repr(got["s%d.b%d" % (si, bi)]),
                                        "distinct_results_over_states": len(vals)})
    feats = sorted(set().union(*[d.features for d in docs])) if docs else []
    v.assumptions = ["reference interpreter qv/gen_expr.py:Interp encodes the documented semantics (32-bit int, overflow/uint wrap/NaN/"
                     "null dereference/out-of-range subscript = undefined and never executed)",
                     "Qt API model generated from the same metatypes (cxx/qtmodel_rt.h + qv/cxxmodel.py) is the execution platform",
                     "excluded: enum/flag bit operations at run time, QString::arg beyond %1..%99, more than one side-effecting call per expression"]
    n_regen = regenerated_code_is_current(v, rng) if not replay else 0
    # the code on disk is the code of the CURRENT expressions (edits that leave the .ui byte-identical)
    _w = regen.HEAD + "QWidget {\n    QCheckBox { id: sel }\n    QLineEdit { id: e1 }\n    QLineEdit { id: e2 }\n%s}\n"
    n_hist = 0 if replay else regen.regenerated_equals_fresh(v, "c01hist", [
        (_w % "    QLabel { text: e1.text + \"a\" }\n", _w % "    QLabel { text: e2.text + \"b\" }\n"),
        (_w % "    QLabel { enabled: sel.checked && e1.text == \"x\" }\n", _w % "    QLabel { enabled: sel.checked || e1.text != \"x\" }\n"),
        (_w % "    QSpinBox { value: sel.checked ? 1 : 2 }\n", _w % "    QSpinBox { value: { let n = e1.text == e2.text ? 3 : 4; return n * 2 } }\n"),
        (_w % "    QLabel { text: e1.text }\n", _w % "    QLabel { text: e1.text }\n    QLabel { text: e2.text }\n"),
    ], "stale-code-after-expression-edit", "binding expressions edited")
    return v.finish(
        histories_on_disk=n_hist, evaluations=n_pairs + n_regen, distinct_nontrivial=len(distinct),
        rule="type-directed random programs (expressions and statement blocks with let/const/shadowing, if/else, switch with default "
             "in any position, fall-through, break under if, early return, completion values) bound to properties of every result "
             "type, executed in 24 boundary-biased states each; distinct non-trivial = distinct program text with >= 2 different "
             "results over its states and a statement block or >= 4 nodes",
        samples=samples, documents=len(work), programs=sum(len(w[1].bindings) for w in work),
        pairs_defined=n_defined, pairs_undefined_skipped=n_undefined, programs_rejected_by_qmluic=len(rejected),
        bindings_without_code_state_independent=n_constant_bindings, regeneration_scenarios=n_regen,
        rejection_reasons=rej_msgs, sanitizer_or_abnormal_ends=san_reports, shape_features_hit=len(feats), shape_features=feats,
        floor=100 if tier == "quick" else 1000,
    )
