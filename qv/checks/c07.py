"""C07 — totality: any document yields output or diagnostics, never a crash or hang."""
import json
import os
import re
import subprocess

from .. import cbdoc, common, exprdoc, gen_doc
from ..gen_doc import DocGen

VOCAB = ["import", "qmluic.QtWidgets", "QWidget", "QLabel", "QVBoxLayout", "QAction", "QMenu", "VfWidget", "{", "}", "(", ")", "[", "]",
         ":", ";", ",", ".", "?", "?.", "=>", "=", "==", "===", "!=", "+", "-", "*", "/", "%", "**", "<<", ">>", ">>>", "<", ">", "<=",
         "&&", "||", "??", "!", "~", "&", "|", "^", "id", "text", "enabled", "onClicked", "QLayout.row", "font.bold", "actions", "model",
         "true", "false", "null", "this", "let", "const", "var", "if", "else", "switch", "case", "default", "break", "return", "function",
         "async", "await", "new", "typeof", "void", "in", "of", "as", "int", "QString", "Qt.AlignLeft", "qsTr", "Math.max", "console.log",
         "0", "1", "0x", "1e", "1.5", "9223372036854775808", "99999999999999999999", "\"s\"", "'q'", "\"\\u{110000}\"", "\"\\x\"", "`t${x}`",
         "/re/g", "// c\n", "/* c */", "\n", " ", "é", "日本", "\U0001F600", "\u2028", "\ufeff", "\x00", "a1", "_x", "$y", "@", "#", "\\"]

IDENT_POOL = ["QWidget", "QLabel", "QAction", "QMenu", "QVBoxLayout", "QGridLayout", "QSpacerItem", "QTabWidget", "QComboBox", "VfWidget",
              "Qt", "QFont", "QString", "QVariant", "int", "bool", "void", "this", "null", "true", "id", "text", "enabled", "actions", "model",
              "separator", "buddy", "font", "palette", "sizePolicy", "geometry", "flow", "columns", "rows", "header", "contentsMargins",
              "QLayout.row", "QLayout.column", "QLayout.alignment", "QTabWidget.title", "Qt.AlignLeft", "Qt.Horizontal", "QSizePolicy.Fixed",
              "onClicked", "onToggled", "onTextChanged", "onFired", "menuAction", "hide", "setEnabled", "isEmpty", "arg", "qsTr", "Math.max",
              "console.log", "peer", "slist", "vval", "mode", "nonotify", "cval", "roval", "woval", "width", "x1", "default_", "icon.name",
              "windowTitle", "minimumSize", "a", "b", "root", "p0", "v1"]
LIT_POOL = ["0", "1", "-1", "2147483647", "2147483648", "4294967296", "9223372036854775807", "9223372036854775808", "1.5", "1e999", "0x10",
            "\"\"", "\"x\"", "\"#fff\"", "\"#ggg\"", "\"red\"", "\"%1\"", "\"\\u{10FFFF}\"", "\"\\0\"", "65535", "65536", "70000"]

def _switch_comment_shapes():
    """switch statements with comments at switch-body level (between, before and after clauses), default in every position."""
    out = []
    for ncase in (0, 1, 2, 3):
        for dpos in [None] + list(range(ncase + 1)):
            for pattern in ("before-each", "after-each", "only-first", "only-last", "double"):
                clauses = ["case %d: return \"c%d\";" % (i, i) for i in range(ncase)]
                if dpos is not None:
                    clauses.insert(dpos, "default: return \"d\";")
                parts = []
                for i, c in enumerate(clauses):
                    if pattern == "before-each" or (pattern == "only-first" and i == 0):
                        parts.append("// note %d" % i)
                    if pattern == "double":
                        parts += ["/* a */", "// b"]
                    parts.append(c)
                    if pattern == "after-each" or (pattern == "only-last" and i == len(clauses) - 1):
                        parts.append("/* after %d */" % i)
                if not clauses:
                    parts = ["// nothing here"]
                body = "\n            ".join(parts)
                out.append("QWidget { QSpinBox { id: sp } windowTitle: {\n        switch (sp.value) {\n            %s\n        }\n        return \"e\";\n    }\n"
                           "    onWindowTitleChanged: {\n        switch (sp.value) {\n            %s\n        }\n    } }"
                           % (body, body.replace('return "', 'console.log("').replace('";', '"); break;')))
    return out


ODD = _switch_comment_shapes() + [
    # semantically odd but syntactically valid documents aimed at expect/unwrap/assert sites
    "QWidget { QMenu { actions: [menuAction()] } }",
    "QWidget { QMenu { id: m; actions: [this.menuAction(), m.menuAction()] } }",
    "QWidget { QLabel { text: { switch (1) {} } } }",
    "QWidget { onWindowTitleChanged: { switch (windowTitle) {} } }",
    "QWidget { windowTitle: { switch (1) { default: let a = 2; } } }",
    "QWidget { windowTitle: { let a = true ? 1 : 2; } }",
    "QWidget { QLabel { Text: \"x\" } }", "QWidget { QLabel { QLayout.Alignment: 1 } }", "QWidget { A.B.C: 1 }", "QWidget { A.B { c: 1 } }",
    "QWidget { QLayout.row { x: 1 } }", "QWidget { QLayout { row: 1 } }", "QWidget { font { QLayout.row: 1 } }",
    "QWidget { id: a; id: b }", "QWidget { id: 1 }", "QWidget { id: a.b }", "QWidget { id: \"x\" }", "QWidget { id: { a } }",
    "QWidget { windowTitle: { let a: void; \"x\" } }", "QWidget { windowTitle: { let a = console.log(1); \"x\" } }",
    "QWidget { QLabel { indent: Qt.AlignRight as int } }", "QWidget { QLabel { indent: (Qt.AlignLeft | Qt.AlignTop) as int } }",
    "QWidget { QLabel { indent: Qt.AlignRight as uint } }", "QWidget { QLabel { indent: true as int; margin: 1.5 as int } }",
    "QWidget { windowOpacity: 1 as double; minimumWidth: (2.5 as int) + (true as int) }", "QWidget { font.pointSize: Qt.Horizontal as int }",
    "QWidget { QGridLayout { QLabel { QLayout.row: Qt.Vertical as int; QLayout.column: false as int } } }", "QWidget { QLabel { indent: QLabel.PlainText as int } }",
    "QWidget { QVBoxLayout { spacing: Qt.AlignRight as int; contentsMargins.left: Qt.AlignRight as int } }", "QWidget { minimumWidth: Qt.AlignRight as double }",
    "QWidget { windowTitle: (1 as void) }", "QWidget { windowTitle: { return; } }", "QWidget { enabled: { } }", "QWidget { enabled: ; }",
    "QWidget { minimumWidth: 99999999999999999999 }", "QWidget { minimumWidth: 9223372036854775808 }", "QWidget { minimumWidth: -9223372036854775808 }",
    "QWidget { minimumWidth: 1 << 64 }", "QWidget { minimumWidth: 1 << -1 }", "QWidget { minimumWidth: 1 / 0 }", "QWidget { minimumWidth: 1 % 0 }",
    "QWidget { minimumWidth: -9223372036854775807 - 2 }", "QWidget { windowOpacity: 1e999 }", "QWidget { windowOpacity: 0.0 / 0.0 }",
    "QWidget { minimumWidth: " + "(" * 200 + "1" + ")" * 200 + " }", "QWidget { enabled: " + "!" * 300 + "true }",
    "QWidget { minimumWidth: " + " + ".join(["1"] * 400) + " }", "QWidget { windowTitle: " + " + ".join(['"a"'] * 300) + " }",
    "QWidget { " + "QWidget { " * 120 + "}" * 120 + " }",
    "QWidget { QGridLayout { columns: 0; QLabel {} } }", "QWidget { QGridLayout { columns: -1; QLabel {} } }",
    "QWidget { QGridLayout { columns: 70000; QLabel {} } }", "QWidget { QGridLayout { QLabel { QLayout.row: 65535; QLayout.column: 65535 } } }",
    "QWidget { QGridLayout { QLabel { QLayout.row: 2147483647 } } }", "QWidget { QGridLayout { QLabel { QLayout.row: -2147483648 } } }",
    "QWidget { QGridLayout { flow: QGridLayout.TopToBottom; rows: 1; QLabel { QLayout.column: 65535 } QLabel {} QLabel {} } }",
    "QWidget { QGridLayout { QLabel { QLayout.rowStretch: 4294967296 } } }", "QWidget { QGridLayout { QLabel { QLayout.columnSpan: 1.5 } } }",
    "QWidget { QVBoxLayout { QAction {} } }", "QWidget { QSpacerItem {} }", "QWidget { QAction { QAction {} } }", "QWidget { QSpacerItem { QLabel {} } }",
    "QAction {}", "QVBoxLayout {}", "QSpacerItem {}", "Qt {}", "QString {}", "int {}", "QVariant {}", "QFont {}", "QObject {}",
    "QWidget { QTabWidget { QAction {} QVBoxLayout {} } }", "QWidget { QComboBox { model: [1, 2] } }", "QWidget { QComboBox { model: a } }",
    "QWidget { QComboBox { model: [qsTr(\"a\"), \"b\"] } }", "QWidget { QListWidget { model { x: 1 } } }", "QWidget { actions: [1] }",
    "QWidget { actions: [nope] }", "QWidget { actions: this }", "QWidget { actions { x: 1 } }", "QWidget { QTreeView { header: 1 } }",
    "QWidget { QTableView { horizontalHeader { nope: 1 } } }", "QWidget { QPushButton { default_: 1 } }", "QWidget { QPushButton { default: true } }",
    "QWidget { palette.window: 1 }", "QWidget { palette { window: \"red\"; active { window: \"nope\" } } }", "QWidget { palette.active.window.color: \"red\" }",
    "QWidget { sizePolicy.horizontalStretch: 1 }", "QWidget { sizePolicy { horizontalPolicy: QSizePolicy.Fixed } }", "QWidget { sizePolicy.nope: 1 }",
    "QWidget { font: 1 }", "QWidget { font.family.x: 1 }", "QWidget { cursor: 1 }", "QWidget { cursor: Qt.AlignLeft }", "QWidget { windowIcon.name: qsTr(\"x\") }",
    "QWidget { QLabel { buddy: this } }", "QWidget { QLabel { buddy: null } }", "QWidget { QLabel { id: l; buddy: l.buddy } }", "QWidget { QLabel { pixmap: qsTr(\"x\") } }",
    "QWidget { QLabel { alignment: Qt.AlignLeft | 1 } }", "QWidget { QLabel { alignment: Qt.AlignLeft | Qt.Horizontal } }", "QWidget { QLabel { alignment: ~Qt.AlignLeft } }",
    "QWidget { QKeySequenceEdit { keySequence: 1 } }", "QWidget { QAction { shortcut: QKeySequence.Save | QKeySequence.Open } }", "QWidget { QAction { separator: 1 } }",
    "QWidget { QAction { separator: true; onTriggered: {} } }", "QWidget { QAction { id: s; separator: true } actions: [s, s] }",
    "QWidget { onWindowTitleChanged: function() {} }", "QWidget { onWindowTitleChanged: function(a, b, c) {} }", "QWidget { onWindowTitleChanged: function f(a: int): int {} }",
    "QWidget { onWindowTitleChanged: (a: int = 1) => 1 }", "QWidget { onWindowTitleChanged: function(...a) {} }", "QWidget { onWindowTitleChanged: function({a}) {} }",
    "QWidget { onWindowTitleChanged: async function() {} }", "QWidget { onWindowTitleChanged: function*() {} }", "QWidget { onWindowTitleChanged { x: 1 } }",
    "QWidget { on: 1 }", "QWidget { onX: 1 }", "QWidget { on1: 1 }", "QWidget { onÉ: 1 }", "QWidget { é: 1 }", "QWidget { windowTitle: é }",
    "QWidget { windowTitle: this.this }", "QWidget { windowTitle: this() }", "QWidget { windowTitle: qsTr }", "QWidget { windowTitle: Math }",
    "QWidget { windowTitle: console.log }", "QWidget { windowTitle: Qt }", "QWidget { windowTitle: Qt.AlignLeft.x }", "QWidget { windowTitle: QWidget.x }",
    "QWidget { windowTitle: [][0] }", "QWidget { windowTitle: [[\"a\"]][0][0] }", "QWidget { windowTitle: \"a\"[0] }", "QWidget { windowTitle: \"a\".arg }",
    "QWidget { windowTitle: \"%1\".arg(null) }", "QWidget { windowTitle: null }", "QWidget { enabled: null == null }", "QWidget { enabled: [] == [] }",
    "QWidget { property int x: 1 }", "QWidget { signal foo() }", "QWidget { function f() {} }", "QWidget { readonly property var v: 1 }",
    "QWidget { component C: QLabel {} }", "QWidget { enum E { A, B } }", "QWidget { Behavior on x {} }", "@Annot QWidget {}", "QWidget { @A QLabel {} }",
    "pragma Singleton\nQWidget {}", "import \"x\"\nQWidget {}", "import a.b 1.0 as C\nQWidget {}", "import a.b 256.1\nQWidget {}", "import a.b 1.999\nQWidget {}",
    "import \"\\u{110000}\"\nQWidget {}", "QWidget {} QWidget {}", "", " ", "\ufeff", "// only a comment", "QWidget", "QWidget {", "}", "{}", "QWidget {}}",
    "QWidget { windowTitle: \"\\u{110000}\" }", "QWidget { windowTitle: \"\\xZZ\" }", "QWidget { windowTitle: \"\\u12\" }", "QWidget { windowTitle: 'a\nb' }",
    "QWidget { windowTitle: 0x }", "QWidget { windowTitle: 1e }", "QWidget { minimumWidth: 0b2 }", "QWidget { minimumWidth: 1__0 }", "QWidget { minimumWidth: 0_1 }",
    # values that must not be turned into allocations or loops of that size (indices, counts, spans, stretch arrays)
    "QWidget { QGridLayout { QLabel { QLayout.column: 2000000000; QLayout.columnStretch: 1 } } }",
    "QWidget { QGridLayout { QLabel { QLayout.column: 2000000000; QLayout.columnMinimumWidth: 1 } } }",
    "QWidget { QGridLayout { QLabel { QLayout.row: 2000000000; QLayout.rowStretch: 1; QLayout.rowMinimumHeight: 1 } } }",
    "QWidget { QGridLayout { flow: QGridLayout.TopToBottom; QLabel { QLayout.row: 2000000000; QLayout.rowStretch: 1 } } }",
    "QWidget { QGridLayout { flow: QGridLayout.TopToBottom; QLabel { QLayout.column: 2000000000; QLayout.columnStretch: 1 } } }",
    "QWidget { QGridLayout { columns: 2000000000; QLabel { QLayout.column: 1999999999; QLayout.columnStretch: 1 } } }",
    "QWidget { QGridLayout { flow: QGridLayout.TopToBottom; rows: 2000000000; QLabel { QLayout.row: 1999999999; QLayout.rowMinimumHeight: 3 } } }",
    "QWidget { QGridLayout { columns: 65536; QLabel { QLayout.column: 65535; QLayout.columnStretch: 1 } } }",
    "QWidget { QFormLayout { QLabel { QLayout.row: 2000000000 } QLabel { QLayout.row: 2147483647; QLayout.column: 1 } } }",
    "QWidget { QGridLayout { QLabel { QLayout.rowSpan: 2000000000; QLayout.columnSpan: 2147483647 } } }",
    "QWidget { QVBoxLayout { QLabel { QLayout.rowStretch: 2147483647 } QLabel { QLayout.rowStretch: 2000000000 } } }",
    "QWidget { QGridLayout { QLabel { QLayout.row: 65535; QLayout.column: 65535; QLayout.rowStretch: 1; QLayout.columnStretch: 1 } } }",
    "QWidget { minimumWidth: 1n }", "QWidget { minimumWidth: .5 }", "QWidget { windowOpacity: 5. }", "QWidget { minimumWidth: 08 }", "QWidget { minimumWidth: 0o8 }",
]


def mutate_text(rng, src):
    """One tree-unaware but token-aware mutation of a valid document."""
    toks = re.findall(r"\s+|[A-Za-z_][\w.]*|\d[\w.]*|\"(?:[^\"\\\n]|\\.)*\"|'(?:[^'\\\n]|\\.)*'|.", src, re.S)
    if len(toks) < 4:
        return src + rng.choice(VOCAB)
    r = rng.random()
    i = rng.randrange(len(toks))
    if rng.random() < 0.45:
        # syntax-preserving: an identifier (or literal) is replaced by another one, so the document reaches the semantic passes
        idents = [k for k, t in enumerate(toks) if re.fullmatch(r"[A-Za-z_][\w.]*", t)]
        lits = [k for k, t in enumerate(toks) if re.fullmatch(r"\d[\w.]*|\"(?:[^\"\\\n]|\\.)*\"", t)]
        if idents and (rng.random() < 0.75 or not lits):
            k = rng.choice(idents)
            pool = [toks[j] for j in idents] + IDENT_POOL
            new = rng.choice(pool)
            if rng.random() < 0.2 and "." in toks[k]:
                parts = toks[k].split(".")
                parts[rng.randrange(len(parts))] = rng.choice(IDENT_POOL).split(".")[0]
                new = ".".join(parts)
            toks[k] = new
        elif lits:
            toks[rng.choice(lits)] = rng.choice(LIT_POOL)
        return "".join(toks)
    if r < 0.2:
        del toks[i]
    elif r < 0.35:
        toks.insert(i, toks[i])
    elif r < 0.5:
        j = rng.randrange(len(toks))
        toks[i], toks[j] = toks[j], toks[i]
    elif r < 0.65:
        toks[i] = rng.choice(VOCAB)
    elif r < 0.8:
        toks.insert(i, rng.choice(VOCAB))
    elif r < 0.9:
        return "".join(toks)[:rng.randrange(len(src) + 1)]
    else:
        k = rng.randrange(len(toks))
        lo, hi = min(i, k), max(i, k)
        del toks[lo:hi]
    return "".join(toks)


def soup(rng):
    n = rng.choice((1, 3, 8, 20, 60))
    return " ".join(rng.choice(VOCAB) for _ in range(n))


def deep_documents():
    """Deeply nested documents.  -> [(kind, declared depth, source)]

    `deep-ok`: shapes and depths the tool copes with (they bound what the listed finding `stack-overflow-on-deep-nesting` excuses: any
    crash here is a violation).  `deep-overflow`: expression nesting of 6000 levels, where the recursive expression walk of the unchanged
    tree exhausts the 8 MiB main stack (listed finding; fine if a later version copes)."""
    w = lambda body: "import qmluic.QtWidgets\n" + body + "\n"
    shapes = {
        "plus": lambda d: "QWidget { minimumWidth: %s }" % " + ".join(["1"] * d),
        "not": lambda d: "QWidget { enabled: %strue }" % ("!" * d),
        "neg": lambda d: "QWidget { minimumWidth: %s1 }" % ("- " * d),
        "array": lambda d: "QWidget { windowTitle: %s1%s }" % ("[" * d, "]" * d),
        "ternary": lambda d: "QWidget { minimumWidth: %s 1 }" % ("true ? 1 : " * d),
        "call": lambda d: "QWidget { minimumWidth: %s1%s }" % ("Math.max(1, " * d, ")" * d),
        "member": lambda d: "QWidget { minimumWidth: a%s }" % (".b" * d),
        "logical": lambda d: "QWidget { enabled: %s }" % " && ".join(["true"] * d),
        "concat": lambda d: "QWidget { windowTitle: %s }" % " + ".join(['"a"'] * d),
    }
    out = []
    for name, f in shapes.items():
        out.append(("deep-ok", 1200, w(f(1200))))
        out.append(("deep-overflow", 6000, w(f(6000))))
    out += [
        ("deep-ok", 100000, w('QWidget { windowTitle: %s"a" + "b"%s }' % ("(" * 100000, ")" * 100000))),
        ("deep-ok", 100000, w('QWidget { windowTitle: %s"a" + * "b"%s }' % ("(" * 100000, ")" * 100000))),
        ("deep-ok", 20000, w('QWidget { windowTitle: %s"a" + * "b"%s }' % ("(" * 20000, ")" * 20000))),
        ("deep-ok", 1200, w("QWidget { windowTitle: %s * %s }" % ("[" * 1200, "]" * 1200))),
        ("deep-ok", 1200, w("QWidget { minimumWidth: %s 1 + }" % ("true ? 1 : " * 1200))),
        ("deep-ok", 4000, w("QWidget { minimumWidth: { %s 1 %s } }" % ("{ " * 4000, "}" * 4000))),
        ("deep-ok", 4000, w("QWidget { onWindowTitleChanged: { %s {} } }" % ("if (true) {} else " * 4000))),
        ("deep-ok", 2000, w("QWidget { %s %s }" % ("QWidget { " * 2000, "}" * 2000))),
        ("deep-ok", 2000, w("QWidget { %s text: * %s }" % ("QGroupBox { " * 2000, "}" * 2000))),
    ]
    return out


def check_result(v, src, r, kind):
    mode = r.get("mode")
    rp = {"source": src, "mode": mode, "kind": kind}
    if r.get("panic"):
        where = re.sub(r"\d+", "N", r["panic"].split("@")[-1].strip())
        msg = r["panic"].split("@")[0].strip()
        v.violation("panic:" + where.split("/")[-1] + ":" + common.shash(re.sub(r"\d+", "N", msg))[:6],
                    "panic in %s mode: %s" % (mode, r["panic"][:300]), dict(rp, panic=r["panic"]))
        return False
    for a in r.get("range_alarms", []):
        v.violation("range:" + a.split(":")[0], a, dict(rp, diagnostics=r.get("diagnostics"), syntax_errors=r.get("syntax_errors")))
        return False
    for a in r.get("render_errors", []):
        v.violation("render", "report cannot be rendered: %s" % a, dict(rp, diagnostics=r.get("diagnostics")))
        return False
    if r.get("serialize_error"):
        v.violation("serialize", "serialisation failed: %s" % r["serialize_error"], rp)
        return False
    if not r.get("built") and not r.get("has_syntax_error") and not r.get("has_error"):
        v.violation("no-output-no-diagnostic", "neither output nor any syntax error / error diagnostic in %s mode" % mode, rp)
        return False
    if r.get("built") and r.get("ui_utf8") is False:
        v.violation("ui-not-utf8", "emitted .ui is not valid UTF-8", rp)
        return False
    return True


def run(tier, seed, replay=None):
    v = common.Verdict("C07", tier, seed)
    rng = common.rng_for(seed, "C07", tier)
    scale = 1 if tier == "quick" else 25
    corpus = []   # (kind, source)
    wrap = lambda body: "import qmluic.QtWidgets\n" + body + "\n"
    deep_depth = {}
    for k, depth, src in deep_documents():
        deep_depth[len(corpus)] = depth
        corpus.append((k, src))
    for o in ODD:
        corpus.append(("odd", wrap(o) if not o.startswith(("import", "pragma")) and o.strip() not in ("", "\ufeff") else o))
        corpus.append(("odd-noimport", o))
    valid = []
    for i in range(60 * scale):
        g = DocGen(rng, hostile_strings=True, adversarial_names=True, dynamic=0.3, callbacks=0.3, allow_controls=True,
                   max_depth=rng.choice((2, 3, 4)), max_objects=rng.choice((4, 10, 25)), max_bindings=rng.choice((2, 5)))
        valid.append(g.make().source)
    for i in range(10 * scale):
        valid.append(exprdoc.ExprDoc(rng, n_targets=1, max_depth=2, types=rng.sample(exprdoc.ge.VALUE_TYPES, 3)).source)
        valid.append(cbdoc.CbDoc(rng, n_handlers=3, max_depth=2).source)
    for s in valid:
        corpus.append(("valid", s))
    for i in range(3500 * scale):
        s = rng.choice(valid)
        for _ in range(rng.choice((1, 1, 2, 4))):
            s = mutate_text(rng, s)
        corpus.append(("mutated", s))
    small = [s for s in valid if len(s) < 500][:3 * scale] + [wrap(o) for o in rng.sample(ODD, 4 * scale if scale == 1 else 40)]
    for s in small:
        b = s.encode("utf-8")
        for cut in range(0, len(b), 1 if len(b) < 300 else 3):
            t = b[:cut].decode("utf-8", "ignore")
            corpus.append(("truncated", t))
    for i in range(800 * scale):
        corpus.append(("soup", soup(rng)))
        if i % 3 == 0:
            corpus.append(("soup-in-object", wrap("QWidget { " + soup(rng) + " }")))
            corpus.append(("soup-in-binding", wrap("QWidget { windowTitle: " + soup(rng) + " }")))
            corpus.append(("soup-in-callback", wrap("QWidget { onWindowTitleChanged: { " + soup(rng) + " } }")))
    if replay:
        rp = json.load(open(replay))
        corpus = [("replay", rp["source"])]
    jobs = [{"id": "j%d" % i, "source": s, "modes": ["generate", "reject", "omit"], "want": []} for i, (k, s) in enumerate(corpus)]
    out = common.translate(jobs, tag="c07")
    kinds = {}
    outcomes = {"output": 0, "syntax-error": 0, "error-diagnostic": 0}
    distinct = set()
    samples = []
    max_cpu = 0.0
    for i, (kind, src) in enumerate(corpus):
        rs = out.results.get("j%d" % i)
        if not rs:
            if "j%d" % i not in out.cpu_violations and "j%d" % i not in {c[0] for c in out.crashes}:
                v.inconc("no result for a %s document" % kind)
            continue
        ok = True
        for r in rs:
            max_cpu = max(max_cpu, r.get("cpu_ms", 0))
            ok = check_result(v, src, r, kind) and ok
        if ok:
            kinds[kind] = kinds.get(kind, 0) + 1
            g = rs[0]
            key = "output" if (g.get("built") and not g.get("has_error") and not g.get("has_syntax_error")) else \
                ("syntax-error" if g.get("has_syntax_error") else "error-diagnostic")
            outcomes[key] += 1
            msgs = tuple(sorted({re.sub(r"'[^']*'|\d+", "_", d["message"]) for d in g.get("diagnostics", [])}))
            distinct.add((key, msgs, g.get("has_syntax_error")))
            if len(samples) < 4 and kind in ("mutated", "soup-in-binding", "truncated", "odd") and 20 < len(src) < 400 and kind not in [s["kind"] for s in samples]:
                samples.append({"kind": kind, "source": src, "outcome": key, "diagnostics": [d["message"] for d in g.get("diagnostics", [])][:3],
                                "syntax_errors": len(g.get("syntax_errors", []))})
    for jid in set(out.cpu_violations):
        k, src = corpus[int(jid[1:])]
        # listed finding: the overrun is inside the call of the tree-sitter parser (UiDocument::parse alone exceeds the budget);
        # an overrun anywhere after parsing is a different violation and is reported
        sig = "parser-call-exceeds-cpu-budget" if jid in out.cpu_in_parser else "cpu-budget"
        v.violation(sig, "translation did not finish within %.0f s CPU%s" % (
            common.CPU_BUDGET_S, " (UiDocument::parse alone does not)" if jid in out.cpu_in_parser else ""), {"source": src, "kind": k})
    crashed = {jid for jid, _, _ in out.crashes}
    for jid, status, err in out.crashes:
        k, src = corpus[int(jid[1:])]
        if k == "deep-overflow" and "has overflowed its stack" in err and deep_depth.get(int(jid[1:]), 0) >= 6000:
            # listed finding, keyed on the input family (expression nesting of 6000 levels) and on the way the process died
            v.violation("stack-overflow-on-deep-nesting", "the recursive expression walk exhausted the stack on an expression nested %d levels "
                        "deep (signal %d): %s" % (deep_depth[int(jid[1:])], -status, err[-160:]), {"source_head": src[:300], "kind": k, "stderr": err})
            continue
        v.violation("process-crash", "translating the document alone killed the process with signal %d (memory budget %d GiB): %s"
                    % (-status, common.MEM_BUDGET_BYTES >> 30, err[-200:]), {"source": src, "kind": k, "stderr": err})
    for jid, why in out.inconclusive:
        if jid not in crashed:
            v.inconc("%s: %s" % (jid, why))

    # ---- the command-line tool exits with 0 or 1 only
    n_cli = 60 if tier == "quick" else 1000
    cli_dir = common.workdir("c07cli")
    picks = [c for c in corpus if c[0] in ("odd", "mutated", "soup-in-binding", "valid")]
    rng.shuffle(picks)
    picks = [c for c in corpus if c[0] == "odd"][:20] + picks[:n_cli - 20] if not replay else corpus
    env = dict(os.environ, NO_COLOR="1")
    cli_status = {}
    for i, (kind, src) in enumerate(picks):
        if "\x00" in src:
            continue
        d = os.path.join(cli_dir, "p%d" % i)
        os.makedirs(d)
        with open(os.path.join(d, "Doc.qml"), "w", encoding="utf-8", errors="surrogatepass") as f:
            f.write(src)
        for extra in ([], ["--no-dynamic-binding"]):
            try:
                p = subprocess.run([common.CLI, "generate-ui", "--foreign-types", common.METATYPES, "--foreign-types", common.VF_TYPES]
                                   + extra + ["Doc.qml"], cwd=d, capture_output=True, timeout=120, env=env,
                                   preexec_fn=common._limit_cpu(common.CPU_BUDGET_S))
                st = p.returncode
            except subprocess.TimeoutExpired:
                v.inconc("CLI wall-clock watchdog")
                continue
            cli_status[st] = cli_status.get(st, 0) + 1
            if st not in (0, 1):
                v.violation("cli-exit-%s" % st, "qmluic generate-ui %s exited with status %s: %s" % (" ".join(extra), st, p.stderr.decode("utf-8", "replace")[-300:]),
                            {"source": src, "kind": kind, "args": extra, "stderr": p.stderr.decode("utf-8", "replace")[-2000:]})

    # ---- documents that live next to component files (the directory path of the tool): odd component relations
    PROJECTS = [
        {"Loop.qml": "Loop {}", "Main.qml": "QWidget { Loop {} }"},
        {"Ping.qml": "Pong {}", "Pong.qml": "Ping {}", "Main.qml": "QWidget { QVBoxLayout { Ping { toolTip: \"x\" } Pong {} } }"},
        {"A.qml": "B {}", "B.qml": "C {}", "C.qml": "A {}", "Main.qml": "A { C { id: c } windowTitle: c.windowTitle }"},
        {"Main.qml": "Main {}"},
        {"Main.qml": "QWidget { Main {} }"},
        {"Deep.qml": "Deeper {}", "Deeper.qml": "Deepest {}", "Deepest.qml": "NoSuchBase {}", "Main.qml": "QWidget { Deep { enabled: false } }"},
        {"Lay.qml": "QVBoxLayout {}", "Act.qml": "QAction {}", "Main.qml": "Lay { Act {} Lay { Act { id: a } } }"},
        {"W.qml": "QWidget { W {} }", "Main.qml": "QWidget { W {} }"},
        {"Bad.qml": "QWidget { {{{ ", "Main.qml": "QWidget { Bad {} }"},
        {"Empty.qml": "", "Main.qml": "QWidget { Empty {} }"},
        {"lower.qml": "QWidget {}", "Main.qml": "QWidget { lower {} }"},
        {"X.qml": "QWidget {}", "x.qml": "QLabel {}", "Main.qml": "QWidget { X {} }"},
        # legal non-ASCII type names (file stems): anonymous instances get generated names derived from them
        {"Éditeur.qml": "QWidget {}", "UIÉcran.qml": "QLabel {}", "Ωmega.qml": "QFrame {}", "Ünï.qml": "QPushButton {}", "A日本.qml": "QLabel {}",
         "Main.qml": "QWidget { QVBoxLayout { Éditeur {} UIÉcran {} Ωmega {} Ünï { onClicked: {} } A日本 { text: \"x\" } Éditeur { id: e } } }"},
        {"Éditeur.qml": "Éditeur {}", "Main.qml": "Éditeur { Éditeur {} }"},
    ]
    proj_dir = common.workdir("c07proj")
    for k, files in enumerate(PROJECTS):
        d = os.path.join(proj_dir, "q%d" % k)
        os.makedirs(d)
        for fn, body in files.items():
            with open(os.path.join(d, fn), "w") as f:
                f.write(("import qmluic.QtWidgets\n" if body else "") + body + "\n")
        for src in sorted(files):
            for extra in ([], ["--no-dynamic-binding"]):
                try:
                    p = subprocess.run([common.CLI, "generate-ui", "--foreign-types", common.METATYPES] + extra + [src], cwd=d, capture_output=True,
                                       timeout=300, env=env, preexec_fn=common._limit_cpu(common.CPU_BUDGET_S))
                    st = p.returncode
                except subprocess.TimeoutExpired:
                    v.inconc("CLI wall-clock watchdog (component project %d)" % k)
                    continue
                cli_status[st] = cli_status.get(st, 0) + 1
                kinds["component-project"] = kinds.get("component-project", 0) + 1
                if st not in (0, 1):
                    sig = "cpu-budget" if st in (-24, -9) else "cli-exit-%s" % st
                    v.violation(sig, "qmluic generate-ui %s %s in a directory of odd components ended with status %s%s: %s"
                                % (" ".join(extra), src, st, " (CPU budget)" if sig == "cpu-budget" else "", p.stderr.decode("utf-8", "replace")[-300:]),
                                {"files": files, "source_argument": src, "args": extra, "stderr": p.stderr.decode("utf-8", "replace")[-2000:]})

    # ---- the native parser and the whole library under valgrind memcheck (thorough)
    # The harness binary runs under valgrind in a few shards (start-up - loading the type information - costs ~15 s under
    # valgrind and is paid once per shard, not once per document).
    vg = 0
    if tier == "thorough":
        import json as _json
        vg_dir = common.workdir("c07vg")
        slow = {int(j[1:]) for j in out.cpu_violations} | {int(j[1:]) for j in crashed}
        picks = [(i, c) for i, c in enumerate(corpus) if c[0] in ("mutated", "soup", "truncated", "soup-in-binding", "odd") and i not in slow]
        rng.shuffle(picks)
        picks = picks[:4000]
        nsh = common.NCPU
        from concurrent.futures import ThreadPoolExecutor

        def shard(k):
            mine = picks[k::nsh]
            jf, of = os.path.join(vg_dir, "s%d.jobs" % k), os.path.join(vg_dir, "s%d.out" % k)
            with open(jf, "w") as f:
                for i, (kind, src) in mine:
                    f.write(_json.dumps({"id": "j%d" % i, "source": src, "modes": ["generate", "omit"], "want": []}) + "\n")
            cmd = ["valgrind", "-q", "--error-exitcode=95", "--leak-check=no", common.QVH, "translate", "--job-cpu-ms", "900000",
                   "--types"] + common.type_paths() + ["--jobs", jf, "--out", of]
            try:
                p = subprocess.run(cmd, capture_output=True, timeout=7200)
                return k, len(mine), p.returncode, p.stderr.decode("utf-8", "replace")
            except subprocess.TimeoutExpired:
                return k, len(mine), None, "wall-clock watchdog"
        with ThreadPoolExecutor(max_workers=nsh) as ex:
            for k, n, st, err in ex.map(shard, range(nsh)):
                if st == 0:
                    vg += n
                elif st == 95 or "== Invalid" in err or "uninitialised" in err:
                    v.violation("memcheck", "valgrind memcheck reports an error in shard %d (%d documents): %s" % (k, n, err.strip().splitlines()[0][:200]),
                                {"shard_jobs": os.path.join(vg_dir, "s%d.jobs" % k), "stderr": err[-6000:]})
                else:
                    v.inconc("valgrind shard %d ended with %r: %s" % (k, st, err[-200:]))
    v.assumptions = ["termination restated as bounded progress: every translation within %.0f s CPU (observed max %.1f ms)"
                     % (common.CPU_BUDGET_S, max_cpu),
                     "library entry points are called in all three modes on every text (also on texts with syntax errors, which the CLI "
                     "itself only builds in preview mode)"]
    return v.finish(
        evaluations=3 * len(corpus) + sum(cli_status.values()) + vg, distinct_nontrivial=len(distinct),
        rule="well-formed documents of the other generators, %d hand-written odd documents aimed at expect/unwrap/assert sites, "
             "token-aware mutations (delete, duplicate, swap, replace, insert, truncate at every byte, cut), token soup bare and inside "
             "object / binding / callback positions; all three modes in-process under catch_unwind + the CLI; distinct = distinct "
             "(outcome class, set of diagnostic message shapes)" % len(ODD),
        samples=samples, documents_by_kind=kinds, outcomes=outcomes, cli_exit_statuses={str(k): n for k, n in cli_status.items()},
        max_cpu_ms=round(max_cpu, 1), cpu_budget_ms=common.CPU_BUDGET_S * 1000, valgrind_runs=vg, floor=100,
    )
