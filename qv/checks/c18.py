"""C18 — QML components in directories resolve as custom widgets, in any order."""
import os
import resource
import shutil
import subprocess
from concurrent.futures import ThreadPoolExecutor

from .. import common, uiparse

ENV = dict(os.environ, NO_COLOR="1")

# Qt base -> (ancestors incl. itself, [(property, QML value, expected decoded value)])
QT_BASES = {
    "QWidget": (["QWidget"], [("toolTip", '"tip"', "tip"), ("enabled", "false", False)]),
    "QFrame": (["QFrame", "QWidget"], [("lineWidth", "3", 3)]),
    "QLineEdit": (["QLineEdit", "QWidget"], [("readOnly", "true", True), ("placeholderText", '"ph"', "ph")]),
    "QLabel": (["QLabel", "QFrame", "QWidget"], [("wordWrap", "true", True), ("text", '"lbl"', "lbl")]),
    "QPushButton": (["QPushButton", "QWidget"], [("flat", "true", True), ("text", '"btn"', "btn")]),
    "QGroupBox": (["QGroupBox", "QWidget"], [("checkable", "true", True), ("title", '"grp"', "grp")]),
    "QDialog": (["QDialog", "QWidget"], [("modal", "true", True), ("sizeGripEnabled", "true", True)]),
}
DIR_POOL = ["app", "widgets", "common", "app/sub", "lib/deep/er", "Other Dir", "app/sub/leaf"]
NAME_POOL = ["Edit", "FancyEdit", "Sep", "Panel", "Gallery", "Card", "Row", "Knob", "Title", "Box", "Pane", "Tile", "Strip", "Hint",
             "X1", "Long_Name_2", "Éditeur", "Ωmega", "UIÉcran"]


class Comp:
    def __init__(self, name, d, root, key=None):
        self.name, self.dir, self.root = name, d, root   # root: the type name written in the file
        self.key = key or name
        self.imports = []      # (target dir, spelling)
        self.cyclic = False
        self.cands = None      # keys of the components the root name may denote (None: root is a Qt class)
        self.resolved = None   # key of the component the root denotes, "" = unusable / undecided
        self.frozen = False    # no random extra imports (they could change what its root name denotes)


class Project:
    """Components are keyed by name; a second component of the same name in another directory has the key name@dir.

    What a root type name denotes is unambiguous by construction, except where a component of that name exists both in the
    file's own directory and in ONE directory it imports explicitly.  The property does not fix a precedence for that case,
    so it is decided by what qmluic itself reports when the component file is translated alone (probe): its .ui names the
    root class and, under <customwidgets>, what that class extends.  The rest of the oracle (instances accept the base
    class properties, extends/header entries) is then held against that answer.
    """

    def __init__(self, rng, k):
        self.rng = rng
        self.dirs = rng.sample(DIR_POOL, rng.randint(1, 5))
        self.comps = {}
        self.sources = []
        self.features = set()
        names = rng.sample(NAME_POOL, rng.randint(2, 9))
        for n in names:
            d = rng.choice(self.dirs)
            if self.comps and rng.random() < 0.4:
                base = rng.choice([c for c in self.comps.values() if not c.cyclic])
                c = Comp(n, d, base.name)
                self.require(c, base.dir)
                self.features.add("component-of-component")
            else:
                c = Comp(n, d, rng.choice(list(QT_BASES)))
            self.comps[c.key] = c
        # extra imports: directory cycles, redundant imports
        for c in self.comps.values():
            for _ in range(rng.choice((0, 0, 1, 2))):
                self.require(c, rng.choice(self.dirs), force=True)
        # mutually inheriting components
        if rng.random() < 0.35:
            d1, d2 = rng.choice(self.dirs), rng.choice(self.dirs)
            a, b = Comp("CycA", d1, "CycB"), Comp("CycB", d2, "CycA")
            a.cyclic = b.cyclic = True
            self.require(a, d2)
            self.require(b, d1)
            self.comps["CycA"], self.comps["CycB"] = a, b
            self.features.add("inheritance-cycle")
            if rng.random() < 0.5:
                sc = Comp("CycSelf", d1, "CycSelf")
                sc.cyclic = True
                self.comps["CycSelf"] = sc
        # same-named components in different directories
        # (every fourth project is steered to the shadowing shape with the own directory imported again, every fourth to a chain)
        self.force_reimport = (k % 4 == 0)
        if len(self.dirs) >= 2 and (k % 4 in (0, 1) or rng.random() < 0.5):
            self.add_same_named("shadow" if k % 4 == 0 else "chain" if k % 4 == 1 else rng.choice(("shadow", "chain", "chain")))
        self.compute_candidates()
        if self.has_dir_cycle():
            self.features.add("directory-cycle")
        self.features.add("dirs=%d" % len(self.dirs))

    # ------------------------------------------------------------------ same names
    def add_same_named(self, kind):
        rng = self.rng
        targets = [c for c in self.comps.values() if not c.cyclic and c.key == c.name]
        if not targets:
            return
        t = rng.choice(targets)
        others = [d for d in self.dirs if d != t.dir and not any(c.name == t.name and c.dir == d for c in self.comps.values())]
        if not others:
            return
        d1 = rng.choice(others)
        fresh = [n for n in NAME_POOL if not any(c.name == n for c in self.comps.values())]
        if not fresh:
            return
        if kind == "shadow":
            # d1/N (another Qt base) shadows or is shadowed by t = d2/N for a component of d1 that imports d2
            if t.root not in QT_BASES:
                return
            s = Comp(t.name, d1, rng.choice([q for q in QT_BASES if q != t.root]), key="%s@%s" % (t.name, d1))
            user = Comp(fresh[0], d1, t.name)
            self.require(user, t.dir)
            if rng.random() < 0.5 or self.force_reimport:
                # ... and imports its own directory explicitly AFTER the other one (`import "../lib"; import "."`)
                user.imports.append((d1, self.spelling(d1, d1)))
                self.features.add("same-name:own-directory-reimported-last")
            for c in (s, user):
                c.frozen = True
                self.comps[c.key] = c
            self.features.add("same-name:own-directory-vs-import")
        else:
            # d1/N is rooted in N of the imported directory d2: two ancestors of one chain carry the same name
            pnl = Comp(t.name, d1, t.name, key="%s@%s" % (t.name, d1))
            self.require(pnl, t.dir)
            user = Comp(fresh[0], d1, t.name)     # sees only d1/N
            for c in (pnl, user):
                c.frozen = True
                self.comps[c.key] = c
            self.features.add("same-name:chain")
        # every earlier component that can now see two N must not pick up further imports either
        for c in self.comps.values():
            if c.root == t.name:
                c.frozen = True

    def providers(self, name, d, import_dirs):
        return [c for c in self.comps.values() if c.name == name and (c.dir == d or c.dir in import_dirs)]

    def compute_candidates(self):
        self.valid = True
        for c in self.comps.values():
            if c.root in QT_BASES:
                c.cands, c.resolved = None, None
                continue
            own = [x for x in self.comps.values() if x.name == c.root and x.dir == c.dir]
            explicit = [x for x in self.comps.values() if x.name == c.root and x.dir != c.dir and x.dir in [t for t, _ in c.imports]]
            if len(explicit) > 1 or len(own) > 1:
                self.valid = False
            c.cands = [x.key for x in own + explicit]
            c.resolved = c.cands[0] if len(c.cands) == 1 else ""
            if not c.cands:
                self.valid = False

    def ambiguous(self):
        return [c for c in self.comps.values() if c.cands and len(c.cands) > 1 and not c.cyclic]

    def settle(self, c, extends):
        """Decide an ambiguous root from the `extends` qmluic reported for the root class in the component's own form."""
        hits = [k for k in c.cands if self.comps[k].root == extends]
        c.resolved = hits[0] if len(hits) == 1 else ""
        return bool(c.resolved)

    # ------------------------------------------------------------------ imports
    def spelling(self, frm, to):
        rel = os.path.relpath(to, frm)
        kind = self.rng.choice(("plain", "plain", "dot", "slash", "detour", "dotdot-up"))
        if rel == ".":
            kind = "self"
            s = self.rng.choice((".", "./", "../" + os.path.basename(frm)))
        elif kind == "dot":
            s = "./" + rel
        elif kind == "slash":
            s = rel + "/"
        elif kind == "detour":
            s = rel + "/../" + os.path.basename(to)
        elif kind == "dotdot-up":
            s = os.path.join("..", os.path.basename(frm), rel)
        else:
            s = rel
        if ".." in s:
            self.features.add("import-with-dotdot")
        self.features.add("import:" + kind)
        return s

    def require(self, c, target_dir, force=False):
        if getattr(c, "frozen", False) and force:
            return
        if target_dir == c.dir and not force:
            return
        if any(t == target_dir for t, _ in c.imports) and not force:
            return
        c.imports.append((target_dir, self.spelling(c.dir, target_dir)))

    def has_dir_cycle(self):
        edges = {(c.dir, t) for c in self.comps.values() for t, _ in c.imports if t != c.dir}
        return any((b, a) in edges for a, b in edges)

    # ------------------------------------------------------------------ the model's answers
    def root_comp(self, c):
        return self.comps.get(c.resolved) if c.resolved else None

    def chain(self, c):
        out = []
        while c is not None and c not in out and len(out) < 30:
            out.append(c)
            if c.root in QT_BASES:
                break
            c = self.root_comp(c)
        return out

    def qt_base(self, c):
        ch = self.chain(c)
        last = ch[-1]
        return last.root if last.root in QT_BASES and not any(x.cyclic for x in ch) else None

    def usable(self):
        return [c for c in self.comps.values() if not c.cyclic and self.qt_base(c)]

    def comp_text(self, c):
        lines = ["import qmluic.QtWidgets"] + ['import "%s"' % s for _, s in c.imports]
        return "\n".join(lines) + "\n%s {\n}\n" % c.root

    def comp_path(self, c):
        return os.path.join(c.dir, c.name + ".qml")

    # ------------------------------------------------------------------ documents
    def make_sources(self):
        rng = self.rng
        usable = self.usable()
        cyc = [c for c in self.comps.values() if c.cyclic]
        if usable:
            self.features.add("chain=%d" % max(len(self.chain(c)) for c in usable))
        if not usable:
            return
        n_docs = rng.randint(1, 4)
        tries = 0
        while len(self.sources) < n_docs and tries < n_docs * 6:
            tries += 1
            d = rng.choice(self.dirs)
            name = "Main%d" % len(self.sources)
            doc = Comp(name, d, None)
            with_cycle = bool(cyc) and rng.random() < 0.4
            picks = rng.sample(usable, min(len(usable), rng.randint(1, 4)))
            if any(c.frozen for c in usable) and rng.random() < 0.7:
                picks = [rng.choice([c for c in usable if c.frozen])] + picks[:2]   # make the same-named part count
            picks = list({c.key: c for c in picks}.values())
            if len({c.name for c in picks}) != len(picks):
                continue
            seq = [rng.choice(picks) for _ in range(rng.randint(2, 8))]
            if len(picks) >= 2 and rng.random() < 0.6:
                seq += [picks[0], picks[1], picks[0]]
                self.features.add("interleaved-instances")
            root = rng.choice(["QWidget", "QDialog", "QWidget"] + ([rng.choice(picks)] if rng.random() < 0.5 else []))
            if isinstance(root, Comp):
                self.require(doc, root.dir)
                self.features.add("custom-root")
            instances, body = [], []
            for i, c in enumerate(seq):
                self.require(doc, c.dir)
                base = self.qt_base(c)
                props = []
                for anc in QT_BASES[base][0]:
                    for (pn, q, exp) in QT_BASES[anc][1]:
                        if rng.random() < 0.35 and pn not in [x[0] for x in props]:
                            props.append((pn, q, exp))
                if c.frozen and not props:
                    props.append(QT_BASES[base][1][0])     # the base class of a same-named chain is always exercised
                oid = "inst%d" % i
                instances.append((oid, c.key, [(pn, e) for pn, _, e in props]))
                body.append("        %s { id: %s%s }" % (c.name, oid, "".join("; %s: %s" % (pn, q) for pn, q, _ in props)))
                if rng.random() < 0.3:
                    body.append("        QLabel { text: \"plain\" }")
            if with_cycle:
                cc = rng.choice(cyc)
                self.require(doc, cc.dir)
                body.append("        %s { id: cyc }" % cc.name)
                self.features.add("instantiates-cyclic-component")
            if rng.random() < 0.4 and instances:
                c = rng.choice(picks)
                self.require(doc, c.dir)
                body.append("        QGroupBox { QHBoxLayout { %s { id: nested } } }" % c.name)
                instances.append(("nested", c.key, []))
            # every instantiated name must denote exactly one component from where the document stands
            imp_dirs = [t for t, _ in doc.imports]
            used = {self.comps[k] for _, k, _ in instances} | ({root} if isinstance(root, Comp) else set())
            if any(self.providers(c.name, d, imp_dirs) != [c] for c in used):
                continue
            lines = ["import qmluic.QtWidgets"] + ['import "%s"' % sp for _, sp in doc.imports]
            root_name = root.name if isinstance(root, Comp) else root
            text = "\n".join(lines) + "\n%s {\n    QVBoxLayout {\n%s\n    }\n}\n" % (root_name, "\n".join(body))
            self.sources.append({"path": os.path.join(d, name + ".qml"), "text": text, "instances": instances,
                                 "root": root.key if isinstance(root, Comp) else root, "with_cycle": with_cycle})

    def write_components(self, base):
        shutil.rmtree(base, ignore_errors=True)
        for d in self.dirs:
            os.makedirs(os.path.join(base, d), exist_ok=True)
        for c in self.comps.values():
            with open(os.path.join(base, self.comp_path(c)), "w") as f:
                f.write(self.comp_text(c))

    def write_sources(self, base):
        for s in self.sources:
            with open(os.path.join(base, s["path"]), "w") as f:
                f.write(s["text"])

    def files(self, base):
        out = {}
        for dp, _, fns in os.walk(base):
            for fn in fns:
                if fn.endswith(".qml"):
                    out[os.path.relpath(os.path.join(dp, fn), base)] = open(os.path.join(dp, fn)).read()
        return out


def _limit():
    resource.setrlimit(resource.RLIMIT_CPU, (int(common.CPU_BUDGET_S) * 3, int(common.CPU_BUDGET_S) * 3 + 2))


def run_cli(cwd, outdir, sources, lowercase=True):
    args = [common.CLI, "generate-ui", "--foreign-types", common.METATYPES] + (["-O", outdir] if outdir else []) \
        + ([] if lowercase else ["--no-lowercase-file-name"]) + sources
    try:
        p = subprocess.run(args, cwd=cwd, capture_output=True, env=ENV, timeout=300, preexec_fn=_limit)
    except subprocess.TimeoutExpired:
        return None, ""
    return p.returncode, p.stderr.decode("utf-8", "replace")


def read_outputs(base, outdir, src, lowercase=True):
    d, fn = os.path.split(src)
    stem = os.path.splitext(fn)[0]
    low = "".join(ch.lower() if ch.isascii() else ch for ch in stem)     # the file name rule lower-cases ASCII letters only
    ui = os.path.join(base, outdir, d, (low if lowercase else stem) + ".ui")
    h = os.path.join(base, outdir, d, "uisupport_" + low + ".h" if lowercase else "uisupport_" + stem + ".h")
    return tuple(open(p, "rb").read() if os.path.exists(p) else None for p in (ui, h))


def judge_ui(v, proj, src, ui_bytes, lowercase, rp):
    try:
        root = uiparse.parse(ui_bytes)
    except uiparse.UiSyntaxError as e:
        v.violation("ill-formed-ui", "output of %s is not well-formed: %s" % (src["path"], e), rp)
        return
    cw = root.find("customwidgets")
    listed = []
    for w in (cw.findall("customwidget") if cw is not None else []):
        listed.append(tuple(uiparse.text_of(w.find(t)) if w.find(t) is not None else None for t in ("class", "extends", "header")))
    inst_comps = {proj.comps[k] for _, k, _ in src["instances"]} | ({proj.comps[src["root"]]} if src["root"] in proj.comps else set())
    by_name = {c.name: c for c in inst_comps}       # unique per document by construction
    inst_types = set(by_name)
    allowed = {}                                    # name -> components of that name that may be listed (instantiated ones and their bases)
    for c in inst_comps:
        for x in proj.chain(c):
            allowed.setdefault(x.name, [])
            if x not in allowed[x.name]:
                allowed[x.name].append(x)
    names = [l[0] for l in listed]
    for t in sorted(inst_types):
        if names.count(t) != 1:
            v.violation("customwidget-count", "%s: custom widget %s is listed %d times (instantiated: %s; listed: %s)"
                        % (src["path"], t, names.count(t), sorted(inst_types), names), rp)
    for (cls, ext, hdr) in listed:
        if cls not in allowed:
            v.violation("customwidget-spurious", "%s: <customwidget> %s is neither instantiated nor a base of an instantiated component" % (src["path"], cls), rp)
            continue
        if names.count(cls) > len(allowed[cls]) and cls not in inst_types:
            v.violation("customwidget-count", "%s: custom widget %s is listed %d times" % (src["path"], cls, names.count(cls)), rp)
        cands = [by_name[cls]] if cls in by_name else allowed[cls]
        want_hdr = ("".join(ch.lower() if ch.isascii() else ch for ch in cls) if lowercase else cls) + ".h"   # ASCII-only, as the file name rule
        if ext not in [c.root for c in cands] or hdr != want_hdr:
            v.violation("customwidget-entry", "%s: <customwidget> %s has extends=%r header=%r, expected extends in %r header=%r"
                        % (src["path"], cls, ext, hdr, [c.root for c in cands], want_hdr), rp)
    objs = {name: n for _, name, _, n in uiparse.named_objects(root)}
    for oid, key, props in src["instances"]:
        t = proj.comps[key].name
        n = objs.get(oid)
        if n is None or n.attrs.get("class") != t:
            v.violation("instance-missing", "%s: instance %s of %s is %s in the form" % (src["path"], oid, t, "missing" if n is None else "of class %r" % n.attrs.get("class")), rp)
            continue
        got = {}
        for k, x in uiparse.properties_of(n).items():
            d = uiparse.decode_value(x.children[0]) if x.children else None
            if d and d[0] == "bool":
                got[k] = d[1] == "true"
            elif d and d[0] == "number":
                got[k] = int(d[1]) if d[1].lstrip("-").isdigit() else d[1]
            elif d and d[0] == "string":
                got[k] = d[1]
            else:
                got[k] = d
        for p, exp in props:
            if p not in got or got[p] != exp:
                v.violation("base-property", "%s: %s (%s).%s is %r in the form, expected %r" % (src["path"], oid, t, p, got.get(p), exp), rp)


def one_project(args):
    k, seed, tier, wd = args
    rng = common.rng_for(seed, "C18", tier, k)
    proj = None
    for attempt in range(8):
        proj = Project(common.rng_for(seed, "C18", tier, k, attempt), k)
        if proj.valid:
            break
    base = os.path.join(wd, "p%d" % k)
    proj.write_components(base)
    lowercase = rng.random() < 0.8
    if rng.random() < 0.25:
        # some component files are symbolic links into a store that is not imported (widgets shared between projects): a link
        # named X.qml in the directory is still the file X.qml of that directory
        os.makedirs(os.path.join(base, ".store"))
        for n, c in enumerate(proj.comps.values()):
            if rng.random() < 0.6:
                path = os.path.join(base, proj.comp_path(c))
                blob = os.path.join(base, ".store", "%d.blob" % n)
                os.rename(path, blob)
                os.symlink(os.path.relpath(blob, os.path.dirname(path)), path)
                proj.features.add("symlinked-component")
    # probe: what does qmluic say an ambiguous root name denotes?  (the component file translated alone)
    probes = []
    for n, c in enumerate(proj.ambiguous()):
        st, err = run_cli(base, "probe%d" % n, [proj.comp_path(c)], True)
        ext = None
        ui = read_outputs(base, "probe%d" % n, proj.comp_path(c), True)[0]
        if st == 0 and ui is not None:
            try:
                r = uiparse.parse(ui)
                w = r.find("widget")
                cw = r.find("customwidgets")
                for e in (cw.findall("customwidget") if cw is not None else []):
                    if uiparse.text_of(e.find("class")) == c.root and w is not None and w.attrs.get("class") == c.root:
                        ext = uiparse.text_of(e.find("extends"))
            except uiparse.UiSyntaxError:
                pass
        settled = proj.settle(c, ext) if ext is not None else False
        probes.append({"component": proj.comp_path(c), "root": c.root, "candidates": c.cands, "status": st,
                       "reported_extends": ext, "settled_as": c.resolved or None, "stderr": err[-300:]})
        shutil.rmtree(os.path.join(base, "probe%d" % n), ignore_errors=True)
    proj.probes = probes
    proj.make_sources()
    proj.write_sources(base)
    srcs = [s["path"] for s in proj.sources]
    runs = []
    if not srcs:
        # no usable component (every one of them is part of an inheritance cycle): nothing to invoke the tool on
        files = proj.files(base)
        shutil.rmtree(base, ignore_errors=True)
        return proj, lowercase, [], {}, None, files
    orders = [list(srcs)]
    if len(srcs) > 1:
        o2 = list(reversed(srcs))
        orders.append(o2)
        o3 = list(srcs)
        rng.shuffle(o3)
        if o3 not in orders:
            orders.append(o3)
    # extra: also name component files themselves as sources, in front or behind
    extra = [proj.comp_path(c) for c in proj.usable()]
    if extra and rng.random() < 0.5:
        e = rng.sample(extra, min(len(extra), 2))
        orders.append(e + srcs)
        orders.append(srcs + e)
    for i, o in enumerate(orders):
        runs.append(("order%d" % i, "out_o%d" % i, o))
    for i, s in enumerate(srcs):
        runs.append(("alone%d" % i, "out_a%d" % i, [s]))
    results = []
    for tag, outdir, o in runs:
        st, err = run_cli(base, outdir, o, lowercase)
        results.append((tag, outdir, o, st, err))
    outs = {}
    for tag, outdir, o, st, err in results:
        for s in srcs:
            if s in o:
                outs.setdefault(s, []).append((tag, read_outputs(base, outdir, s, lowercase)))
    # from inside a sub directory, without an output directory
    sub = None
    if proj.sources and rng.random() < 0.5:
        s0 = proj.sources[0]
        cwd = os.path.join(base, os.path.dirname(s0["path"]))
        rel = [os.path.relpath(os.path.join(base, s), cwd) for s in srcs]
        st, err = run_cli(cwd, None, rel, lowercase)
        sub = (st, err, [read_outputs(base, "", s, lowercase) for s in srcs])
    files = proj.files(base)
    shutil.rmtree(base, ignore_errors=True)
    return proj, lowercase, results, outs, sub, files


def run(tier, seed, replay=None):
    v = common.Verdict("C18", tier, seed)
    n_proj = 100 if tier == "quick" else 600
    feats = {}
    n_inv = n_forms = n_probes = n_settled = 0
    samples = []
    wd = common.workdir("c18")
    with ThreadPoolExecutor(max_workers=common.NCPU) as ex:
        for proj, lowercase, results, outs, sub, files in ex.map(one_project, [(k, seed, tier, wd) for k in range(n_proj)]):
            for f in proj.features:
                feats[f] = feats.get(f, 0) + 1
            rp0 = {"files": files, "lowercase": lowercase}
            by_src = {s["path"]: s for s in proj.sources}
            for pr in getattr(proj, "probes", []):
                n_inv += 1
                n_probes += 1
                rp = dict(rp0, probe=pr)
                if pr["status"] not in (0, 1):
                    v.violation("no-termination-or-crash", "generate-ui %s ended with status %s" % (pr["component"], pr["status"]), rp)
                elif pr["status"] == 0 and not pr["settled_as"]:
                    v.violation("customwidget-entry", "%s: the form names root class %s extending %r, which is the root of none of the components "
                                "of that name visible from the file (%s)" % (pr["component"], pr["root"], pr["reported_extends"], pr["candidates"]), rp)
                elif pr["settled_as"]:
                    n_settled += 1
            for tag, outdir, o, st, err in results:
                n_inv += 1
                rp = dict(rp0, sources=o, stderr=err[-1500:])
                if st is None:
                    v.inconc("wall-clock watchdog on %r" % o)
                    continue
                if st < 0 or st not in (0, 1):
                    v.violation("no-termination-or-crash", "generate-ui %r ended with status %s (CPU budget %ds)" % (o, st, common.CPU_BUDGET_S * 3), rp)
                    continue
                has_cycle_use = any(by_src[s]["with_cycle"] for s in o if s in by_src)
                if st != 0 and not has_cycle_use:
                    v.violation("valid-project-rejected", "generate-ui %r failed: %s" % (o, err[-400:]), rp)
            for s, lst in outs.items():
                src = by_src[s]
                rp = dict(rp0, source=s)
                # an invocation stops at the first failing source (documented fail-fast), so a source named after a
                # failing one has no outputs in that invocation; judged: whatever was produced is byte-identical
                status = {tag: st for tag, _, _, st, _ in results}
                present = [(tag, o) for tag, o in lst if o[0] is not None]
                for tag, o in lst:
                    if o[0] is None and status.get(tag) == 0:
                        v.violation("output-missing", "invocation %s exited 0 but wrote no form for %s" % (tag, s), rp)
                ref_tag, ref = present[0] if present else lst[0]
                for tag, o in present[1:]:
                    if o != ref:
                        v.violation("order-dependent-output", "outputs of %s differ between invocations %s and %s" % (s, ref_tag, tag), rp)
                        break
                if ref[0] is not None and not src["with_cycle"]:
                    n_forms += 1
                    judge_ui(v, proj, src, ref[0], lowercase, rp)
                elif ref[0] is None and not src["with_cycle"]:
                    pass  # already reported as valid-project-rejected
            if sub is not None:
                st, err, sub_outs = sub
                n_inv += 1
                for s, o in zip([x["path"] for x in proj.sources], sub_outs):
                    refs = [x for _, x in outs.get(s, []) if x[0] is not None]
                    if refs and o[0] is not None and o != refs[0]:
                        v.violation("order-dependent-output", "outputs of %s differ when run from the source's directory without -O" % s,
                                    dict(rp0, source=s, stderr=err[-800:]))
            want_sample = ("directory-cycle" in proj.features and len(proj.sources) > 1 and len(samples) < 2) or \
                (any(f.startswith("same-name") for f in proj.features) and proj.sources and not any("probes" in x for x in samples))
            if want_sample and len(samples) < 4:
                samples.append({"dirs": proj.dirs, "components": {c.key: {"dir": c.dir, "root": c.root, "imports": [s for _, s in c.imports]}
                                                                   for c in proj.comps.values()},
                                "probes": [{k2: pr[k2] for k2 in ("component", "root", "candidates", "reported_extends", "settled_as")}
                                           for pr in getattr(proj, "probes", [])],
                                "sources": [s["path"] for s in proj.sources], "invocations": [r[2] for r in results]})
    return v.finish(
        evaluations=n_inv, distinct_nontrivial=len(feats),
        rule="generated projects (1-5 directories incl. nested/spaced, 2-12 components rooted in Qt classes or other components, "
             "string imports in 6 spellings incl. '..' detours, mutually importing directories, mutually/self inheriting components, "
             "same-named components in different directories: own directory vs import, two same-named ancestors in one chain) "
             "run through the real CLI with all sources in 2-5 argument orders, each source alone, and from inside a sub directory; "
             "oracle: <customwidgets> == instantiated types once each (+ their component bases), extends/header per project model, "
             "base-class property values on instances, byte-identical outputs across invocations, exit within CPU budget; "
             "distinct = project feature classes observed",
        samples=samples, projects=n_proj, invocations=n_inv, forms_judged=n_forms, features=feats,
        ambiguous_roots_probed=n_probes, ambiguous_roots_settled=n_settled, floor=6,
    )
