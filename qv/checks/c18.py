"""C18 — QML components in directories resolve as custom widgets, in any order."""
import os
import resource
import shutil
import subprocess
from concurrent.futures import ThreadPoolExecutor

from .. import common, uiparse

ENV = dict(os.environ, NO_COLOR="1")

# Qt base -> (ancestors incl. itself, [(property, QML value, expected decoded value)])
QT_BASES = {
    "QWidget": (["QWidget"], [("toolTip", '"tip"', "tip"), ("enabled", "false", False)]),
    "QFrame": (["QFrame", "QWidget"], [("lineWidth", "3", 3)]),
    "QLineEdit": (["QLineEdit", "QWidget"], [("readOnly", "true", True), ("placeholderText", '"ph"', "ph")]),
    "QLabel": (["QLabel", "QFrame", "QWidget"], [("wordWrap", "true", True), ("text", '"lbl"', "lbl")]),
    "QPushButton": (["QPushButton", "QWidget"], [("flat", "true", True), ("text", '"btn"', "btn")]),
    "QGroupBox": (["QGroupBox", "QWidget"], [("checkable", "true", True), ("title", '"grp"', "grp")]),
    "QDialog": (["QDialog", "QWidget"], [("modal", "true", True), ("sizeGripEnabled", "true", True)]),
}
DIR_POOL = ["app", "widgets", "common", "app/sub", "lib/deep/er", "Other Dir", "app/sub/leaf"]
NAME_POOL = ["Edit", "FancyEdit", "Sep", "Panel", "Gallery", "Card", "Row", "Knob", "Title", "Box", "Pane", "Tile", "Strip", "Hint",
             "X1", "Long_Name_2"]


class Comp:
    def __init__(self, name, d, root):
        self.name, self.dir, self.root = name, d, root
        self.imports = []      # (target dir, spelling)
        self.cyclic = False


class Project:
    def __init__(self, rng, k):
        self.rng = rng
        self.dirs = rng.sample(DIR_POOL, rng.randint(1, 5))
        self.comps = {}
        self.sources = []      # (rel path, text, instances [(id, type, [(prop, expected)])], root type)
        self.features = set()
        names = rng.sample(NAME_POOL, rng.randint(2, 9))
        for n in names:
            d = rng.choice(self.dirs)
            if self.comps and rng.random() < 0.4:
                base = rng.choice([c for c in self.comps.values() if not c.cyclic])
                c = Comp(n, d, base.name)
                self.require(c, base.dir)
                self.features.add("component-of-component")
            else:
                c = Comp(n, d, rng.choice(list(QT_BASES)))
            self.comps[n] = c
        # extra imports: directory cycles, redundant imports
        for c in self.comps.values():
            for _ in range(rng.choice((0, 0, 1, 2))):
                self.require(c, rng.choice(self.dirs), force=True)
        # mutually inheriting components
        if rng.random() < 0.35:
            d1, d2 = rng.choice(self.dirs), rng.choice(self.dirs)
            a, b = Comp("CycA", d1, "CycB"), Comp("CycB", d2, "CycA")
            a.cyclic = b.cyclic = True
            self.require(a, d2)
            self.require(b, d1)
            self.comps["CycA"], self.comps["CycB"] = a, b
            self.features.add("inheritance-cycle")
            if rng.random() < 0.5:
                s = Comp("CycSelf", d1, "CycSelf")
                s.cyclic = True
                self.comps["CycSelf"] = s
        if self.has_dir_cycle():
            self.features.add("directory-cycle")
        self.features.add("dirs=%d" % len(self.dirs))
        self.features.add("chain=%d" % max(self.chain(c.name) for c in self.comps.values() if not c.cyclic))

    def spelling(self, frm, to):
        rel = os.path.relpath(to, frm)
        kind = self.rng.choice(("plain", "plain", "dot", "slash", "detour", "dotdot-up"))
        if rel == ".":
            kind = "self"
            s = self.rng.choice((".", "./", "../" + os.path.basename(frm)))
        elif kind == "dot":
            s = "./" + rel
        elif kind == "slash":
            s = rel + "/"
        elif kind == "detour":
            s = rel + "/../" + os.path.basename(to)
        elif kind == "dotdot-up":
            # climb out of the project-relative directory and come back
            s = os.path.join("..", os.path.basename(frm), rel)
        else:
            s = rel
        if ".." in s:
            self.features.add("import-with-dotdot")
        self.features.add("import:" + kind)
        return s

    def require(self, c, target_dir, force=False):
        if target_dir == c.dir and not force:
            return
        if any(t == target_dir for t, _ in c.imports) and not force:
            return
        c.imports.append((target_dir, self.spelling(c.dir, target_dir)))

    def has_dir_cycle(self):
        edges = {(c.dir, t) for c in self.comps.values() for t, _ in c.imports if t != c.dir}
        return any((b, a) in edges for a, b in edges)

    def chain(self, name):
        n = 0
        while name in self.comps and n < 20:
            name = self.comps[name].root
            n += 1
        return n

    def qt_base(self, name):
        seen = set()
        while name in self.comps:
            if name in seen:
                return None
            seen.add(name)
            name = self.comps[name].root
        return name

    def ancestors(self, name):
        out = []
        while name in self.comps and name not in out:
            out.append(name)
            name = self.comps[name].root
        return out

    def comp_text(self, c):
        lines = ["import qmluic.QtWidgets"] + ['import "%s"' % s for _, s in c.imports]
        return "\n".join(lines) + "\n%s {\n}\n" % c.root

    def make_sources(self):
        rng = self.rng
        usable = [c for c in self.comps.values() if not c.cyclic]
        cyc = [c for c in self.comps.values() if c.cyclic]
        for k in range(rng.randint(1, 4)):
            d = rng.choice(self.dirs)
            name = "Main%d" % k
            doc = Comp(name, d, None)
            with_cycle = bool(cyc) and rng.random() < 0.4
            picks = rng.sample(usable, min(len(usable), rng.randint(1, 4)))
            seq = []
            for _ in range(rng.randint(2, 8)):
                seq.append(rng.choice(picks))           # X, Y, X interleavings arise by chance
            if len(picks) >= 2 and rng.random() < 0.6:
                seq += [picks[0], picks[1], picks[0]]
                self.features.add("interleaved-instances")
            root = rng.choice(["QWidget", "QDialog", "QWidget"] + ([rng.choice(picks).name] if rng.random() < 0.5 else []))
            if root in self.comps:
                self.require(doc, self.comps[root].dir)
                self.features.add("custom-root")
            instances = []
            body = []
            for i, c in enumerate(seq):
                self.require(doc, c.dir)
                base = self.qt_base(c.name)
                props = []
                for anc in QT_BASES[base][0]:
                    for (p, q, exp) in QT_BASES[anc][1]:
                        if rng.random() < 0.35 and p not in [x[0] for x in props]:
                            props.append((p, q, exp))
                oid = "inst%d" % i
                instances.append((oid, c.name, [(p, e) for p, _, e in props]))
                body.append("        %s { id: %s%s }" % (c.name, oid, "".join("; %s: %s" % (p, q) for p, q, _ in props)))
                if rng.random() < 0.3:
                    body.append("        QLabel { text: \"plain\" }")
            if with_cycle:
                cc = rng.choice(cyc)
                self.require(doc, cc.dir)
                body.append("        %s { id: cyc }" % cc.name)
                self.features.add("instantiates-cyclic-component")
            if rng.random() < 0.4 and instances:
                # nested container holding more instances
                c = rng.choice(picks)
                self.require(doc, c.dir)
                body.append("        QGroupBox { QHBoxLayout { %s { id: nested } } }" % c.name)
                instances.append(("nested", c.name, []))
            lines = ["import qmluic.QtWidgets"] + ['import "%s"' % s for _, s in doc.imports]
            text = "\n".join(lines) + "\n%s {\n    QVBoxLayout {\n%s\n    }\n}\n" % (root, "\n".join(body))
            self.sources.append({"path": os.path.join(d, name + ".qml"), "text": text, "instances": instances,
                                 "root": root, "with_cycle": with_cycle})

    def write(self, base):
        shutil.rmtree(base, ignore_errors=True)
        for d in self.dirs:
            os.makedirs(os.path.join(base, d), exist_ok=True)
        for c in self.comps.values():
            with open(os.path.join(base, c.dir, c.name + ".qml"), "w") as f:
                f.write(self.comp_text(c))
        for s in self.sources:
            with open(os.path.join(base, s["path"]), "w") as f:
                f.write(s["text"])

    def files(self, base):
        out = {}
        for dp, _, fns in os.walk(base):
            for fn in fns:
                if fn.endswith(".qml"):
                    out[os.path.relpath(os.path.join(dp, fn), base)] = open(os.path.join(dp, fn)).read()
        return out


def _limit():
    resource.setrlimit(resource.RLIMIT_CPU, (int(common.CPU_BUDGET_S) * 3, int(common.CPU_BUDGET_S) * 3 + 2))


def run_cli(cwd, outdir, sources, lowercase=True):
    args = [common.CLI, "generate-ui", "--foreign-types", common.METATYPES] + (["-O", outdir] if outdir else []) \
        + ([] if lowercase else ["--no-lowercase-file-name"]) + sources
    try:
        p = subprocess.run(args, cwd=cwd, capture_output=True, env=ENV, timeout=300, preexec_fn=_limit)
    except subprocess.TimeoutExpired:
        return None, ""
    return p.returncode, p.stderr.decode("utf-8", "replace")


def read_outputs(base, outdir, src, lowercase=True):
    d, fn = os.path.split(src)
    stem = os.path.splitext(fn)[0]
    ui = os.path.join(base, outdir, d, (stem.lower() if lowercase else stem) + ".ui")
    h = os.path.join(base, outdir, d, ("uisupport_" + stem).lower() + ".h" if lowercase else "uisupport_" + stem + ".h")
    return tuple(open(p, "rb").read() if os.path.exists(p) else None for p in (ui, h))


def judge_ui(v, proj, src, ui_bytes, lowercase, rp):
    try:
        root = uiparse.parse(ui_bytes)
    except uiparse.UiSyntaxError as e:
        v.violation("ill-formed-ui", "output of %s is not well-formed: %s" % (src["path"], e), rp)
        return
    cw = root.find("customwidgets")
    listed = []
    for w in (cw.findall("customwidget") if cw is not None else []):
        listed.append(tuple(uiparse.text_of(w.find(t)) if w.find(t) is not None else None for t in ("class", "extends", "header")))
    inst_types = {t for _, t, _ in src["instances"]} | ({src["root"]} if src["root"] in proj.comps else set())
    allowed_extra = set()
    for t in inst_types:
        allowed_extra.update(proj.ancestors(t))
    names = [l[0] for l in listed]
    for t in sorted(inst_types):
        if names.count(t) != 1:
            v.violation("customwidget-count", "%s: custom widget %s is listed %d times (instantiated: %s; listed: %s)"
                        % (src["path"], t, names.count(t), sorted(inst_types), names), rp)
    for (cls, ext, hdr) in listed:
        if cls not in allowed_extra:
            v.violation("customwidget-spurious", "%s: <customwidget> %s is neither instantiated nor a base of an instantiated component" % (src["path"], cls), rp)
            continue
        if names.count(cls) > 1 and cls not in inst_types:
            v.violation("customwidget-count", "%s: custom widget %s is listed %d times" % (src["path"], cls, names.count(cls)), rp)
        c = proj.comps[cls]
        want_hdr = (cls.lower() if lowercase else cls) + ".h"
        if ext != c.root or hdr != want_hdr:
            v.violation("customwidget-entry", "%s: <customwidget> %s has extends=%r header=%r, expected extends=%r header=%r"
                        % (src["path"], cls, ext, hdr, c.root, want_hdr), rp)
    objs = {name: n for _, name, _, n in uiparse.named_objects(root)}
    for oid, t, props in src["instances"]:
        n = objs.get(oid)
        if n is None or n.attrs.get("class") != t:
            v.violation("instance-missing", "%s: instance %s of %s is %s in the form" % (src["path"], oid, t, "missing" if n is None else "of class %r" % n.attrs.get("class")), rp)
            continue
        got = {}
        for k, x in uiparse.properties_of(n).items():
            d = uiparse.decode_value(x.children[0]) if x.children else None
            if d and d[0] == "bool":
                got[k] = d[1] == "true"
            elif d and d[0] == "number":
                got[k] = int(d[1]) if d[1].lstrip("-").isdigit() else d[1]
            elif d and d[0] == "string":
                got[k] = d[1]
            else:
                got[k] = d
        for p, exp in props:
            if p not in got or got[p] != exp:
                v.violation("base-property", "%s: %s (%s).%s is %r in the form, expected %r" % (src["path"], oid, t, p, got.get(p), exp), rp)


def one_project(args):
    k, seed, tier, wd = args
    rng = common.rng_for(seed, "C18", tier, k)
    proj = Project(rng, k)
    proj.make_sources()
    base = os.path.join(wd, "p%d" % k)
    proj.write(base)
    srcs = [s["path"] for s in proj.sources]
    lowercase = rng.random() < 0.8
    runs = []
    orders = [list(srcs)]
    if len(srcs) > 1:
        o2 = list(reversed(srcs))
        orders.append(o2)
        o3 = list(srcs)
        rng.shuffle(o3)
        if o3 not in orders:
            orders.append(o3)
    # extra: also name component files themselves as sources, in front or behind
    extra = [os.path.join(c.dir, c.name + ".qml") for c in proj.comps.values() if not c.cyclic]
    if extra and rng.random() < 0.5:
        e = rng.sample(extra, min(len(extra), 2))
        orders.append(e + srcs)
        orders.append(srcs + e)
    for i, o in enumerate(orders):
        runs.append(("order%d" % i, "out_o%d" % i, o))
    for i, s in enumerate(srcs):
        runs.append(("alone%d" % i, "out_a%d" % i, [s]))
    results = []
    for tag, outdir, o in runs:
        st, err = run_cli(base, outdir, o, lowercase)
        results.append((tag, outdir, o, st, err))
    outs = {}
    for tag, outdir, o, st, err in results:
        for s in srcs:
            if s in o:
                outs.setdefault(s, []).append((tag, read_outputs(base, outdir, s, lowercase)))
    # from inside a sub directory, without an output directory
    sub = None
    if rng.random() < 0.5:
        s0 = proj.sources[0]
        cwd = os.path.join(base, os.path.dirname(s0["path"]))
        rel = [os.path.relpath(os.path.join(base, s), cwd) for s in srcs]
        st, err = run_cli(cwd, None, rel, lowercase)
        sub = (st, err, [read_outputs(base, "", s, lowercase) for s in srcs])
    files = proj.files(base)
    shutil.rmtree(base, ignore_errors=True)
    return proj, lowercase, results, outs, sub, files


def run(tier, seed, replay=None):
    v = common.Verdict("C18", tier, seed)
    n_proj = 40 if tier == "quick" else 600
    feats = {}
    n_inv = n_forms = 0
    samples = []
    wd = common.workdir("c18")
    with ThreadPoolExecutor(max_workers=common.NCPU) as ex:
        for proj, lowercase, results, outs, sub, files in ex.map(one_project, [(k, seed, tier, wd) for k in range(n_proj)]):
            for f in proj.features:
                feats[f] = feats.get(f, 0) + 1
            rp0 = {"files": files, "lowercase": lowercase}
            by_src = {s["path"]: s for s in proj.sources}
            for tag, outdir, o, st, err in results:
                n_inv += 1
                rp = dict(rp0, sources=o, stderr=err[-1500:])
                if st is None:
                    v.inconc("wall-clock watchdog on %r" % o)
                    continue
                if st < 0 or st not in (0, 1):
                    v.violation("no-termination-or-crash", "generate-ui %r ended with status %s (CPU budget %ds)" % (o, st, common.CPU_BUDGET_S * 3), rp)
                    continue
                has_cycle_use = any(by_src[s]["with_cycle"] for s in o if s in by_src)
                if st != 0 and not has_cycle_use:
                    v.violation("valid-project-rejected", "generate-ui %r failed: %s" % (o, err[-400:]), rp)
            for s, lst in outs.items():
                src = by_src[s]
                rp = dict(rp0, source=s)
                # an invocation stops at the first failing source (documented fail-fast), so a source named after a
                # failing one has no outputs in that invocation; judged: whatever was produced is byte-identical
                status = {tag: st for tag, _, _, st, _ in results}
                present = [(tag, o) for tag, o in lst if o[0] is not None]
                for tag, o in lst:
                    if o[0] is None and status.get(tag) == 0:
                        v.violation("output-missing", "invocation %s exited 0 but wrote no form for %s" % (tag, s), rp)
                ref_tag, ref = present[0] if present else lst[0]
                for tag, o in present[1:]:
                    if o != ref:
                        v.violation("order-dependent-output", "outputs of %s differ between invocations %s and %s" % (s, ref_tag, tag), rp)
                        break
                if ref[0] is not None and not src["with_cycle"]:
                    n_forms += 1
                    judge_ui(v, proj, src, ref[0], lowercase, rp)
                elif ref[0] is None and not src["with_cycle"]:
                    pass  # already reported as valid-project-rejected
            if sub is not None:
                st, err, sub_outs = sub
                n_inv += 1
                for s, o in zip([x["path"] for x in proj.sources], sub_outs):
                    refs = [x for _, x in outs.get(s, []) if x[0] is not None]
                    if refs and o[0] is not None and o != refs[0]:
                        v.violation("order-dependent-output", "outputs of %s differ when run from the source's directory without -O" % s,
                                    dict(rp0, source=s, stderr=err[-800:]))
            if len(samples) < 3 and "directory-cycle" in proj.features and len(proj.sources) > 1:
                samples.append({"dirs": proj.dirs, "components": {c.name: {"dir": c.dir, "root": c.root, "imports": [s for _, s in c.imports]}
                                                                   for c in proj.comps.values()},
                                "sources": [s["path"] for s in proj.sources], "invocations": [r[2] for r in results]})
    return v.finish(
        evaluations=n_inv, distinct_nontrivial=len(feats),
        rule="generated projects (1-5 directories incl. nested/spaced, 2-12 components rooted in Qt classes or other components, "
             "string imports in 6 spellings incl. '..' detours, mutually importing directories, mutually/self inheriting components) "
             "run through the real CLI with all sources in 2-5 argument orders, each source alone, and from inside a sub directory; "
             "oracle: <customwidgets> == instantiated types once each (+ their component bases), extends/header per project model, "
             "base-class property values on instances, byte-identical outputs across invocations, exit within CPU budget; "
             "distinct = project feature classes observed",
        samples=samples, projects=n_proj, invocations=n_inv, forms_judged=n_forms, features=feats, floor=6,
    )
