"""C11 — the object tree and child order of the QML document are preserved."""
import json

from .. import regen, common, doccheck, uiparse
from ..gen_doc import DocGen, Obj


def make_docs(rng, n):
    docs = []
    for i in range(n):
        g = DocGen(rng, hostile_strings=False, adversarial_names=(i % 3 == 0), dynamic=0.0, callbacks=0.0,
                   max_depth=rng.choice((3, 4, 5, 7)), max_fanout=rng.choice((3, 5, 8)),
                   max_objects=rng.choice((8, 20, 40, 80)), max_bindings=rng.choice((0, 1, 3)), groups=False)
        d = g.make()
        d.decorated = False
        if i % 6 == 5:
            # decorations in front of child objects must never make an object disappear: an annotated / commented child is
            # either rejected with a diagnostic or present in the form
            objs = [o for o in d.objects() if o.parent is not None]
            for o in rng.sample(objs, min(len(objs), rng.randint(1, 3))):
                o.prefix = rng.choice(('@Deprecated {}\n', '@Meta { note: "x" }\n', '@Meta { note: "x" } ', '/* c */ ', '// c\n',
                                       '@A {}\n@B {}\n', '/** doc */\n'))
                d.decorated = d.decorated or o.prefix.startswith("@")
            d.print(None)
        d.stray = None
        if i % 8 == 3:
            # an object declared inside an object that cannot hold children (an action, a separator, a spacer): rejected with a
            # diagnostic, or present in the form -- never dropped
            hosts = [o for o in d.objects() if o.kind in ("action", "separator", "spacer") and not o.children]
            if hosts:
                h = rng.choice(hosts)
                c = Obj(*rng.choice((("QAction", "action"), ("QLabel", "widget"), ("QMenu", "menu"))))
                c.id = "stray%d" % i
                c.parent = h
                h.children.append(c)
                d.stray = (c.id, h.kind)
                d.print(None)
        docs.append(d)
    return docs


def same_name_same_kind(v, rng):
    """The element kind of an object follows from its class.  A type name provided both by the document's directory and by an imported
    directory (components of different families: widget / menu / action) may denote either of them, but two files of one directory
    with the same import list must agree: an instance of X in Main.qml and an instance of P (P.qml: `X {}`) are then objects of the
    same family and must appear as the same kind of element (relational; no precedence between the directories is assumed)."""
    import os
    import subprocess
    wd = common.workdir("c11kind")
    n = 0
    fams = [("QWidget", "QMenu"), ("QMenu", "QWidget"), ("QLabel", "QAction"), ("QAction", "QPushButton"), ("QMenu", "QAction")]
    for k, (own, imported) in enumerate(fams):
        imp = rng.choice(('"themed"', '"./themed"', '"themed/"'))
        pd = os.path.join(wd, "p%d" % k)
        os.makedirs(os.path.join(pd, "themed"))
        head = "import qmluic.QtWidgets\n"
        files = {"Entry.qml": head + "%s {}\n" % own, "themed/Entry.qml": head + "%s {}\n" % imported,
                 "Panel.qml": head + "import %s\nEntry {}\n" % imp,
                 "Main.qml": head + "import %s\nQMainWindow {\n    QMenuBar {\n        QMenu {\n            id: fileMenu\n            QAction { id: first }\n"
                             "            Entry { id: direct }\n            Panel { id: viaPanel }\n            QAction { id: last }\n        }\n    }\n}\n" % imp}
        for rel, text in files.items():
            open(os.path.join(pd, rel), "w").write(text)
        p = subprocess.run([common.CLI, "generate-ui", "--foreign-types", common.METATYPES, "Main.qml"], cwd=pd, capture_output=True,
                           env=dict(os.environ, NO_COLOR="1"), timeout=120)
        if p.returncode != 0:
            continue        # refusing the document is no violation of this property
        ui = open(os.path.join(pd, "main.ui"), "rb").read().decode("utf-8", "replace")
        try:
            root = uiparse.parse(ui)
        except uiparse.UiSyntaxError as e:
            v.inconc("ill-formed .ui (C09's business): %s" % e)
            continue
        n += 1
        seen = {}
        for e in root.walk():
            if e.attrs.get("name") in ("direct", "viaPanel") and e.tag in ("widget", "action", "layout", "spacer"):
                seen[e.attrs["name"]] = e.tag
        menu = next((e for e in root.walk() if e.tag == "widget" and e.attrs.get("name") == "fileMenu"), None)
        added = [c.attrs.get("name") for c in (menu.children if menu is not None else []) if c.tag == "addaction"]
        kind = {x: (seen.get(x), x in added) for x in ("direct", "viaPanel")}
        if kind["direct"] != kind["viaPanel"] or None in seen.values() or len(seen) != 2:
            v.violation("same-type-different-kind", "Entry (own directory: %s, %s: %s) instantiated directly is %r, through Panel.qml (`Entry {}`, "
                        "same directory, same imports) it is %r (element, listed in the menu's addaction)" % (own, imp, imported, kind["direct"], kind["viaPanel"]),
                        {"files": files, "ui": ui})
    return n


def run(tier, seed, replay=None):
    v = common.Verdict("C11", tier, seed)
    rng = common.rng_for(seed, "C11", tier)
    n = 2400 if tier == "quick" else 20000
    docs = make_docs(rng, n)
    if replay:
        rp = json.load(open(replay))
        docs = [d for d in docs if d.source == rp.get("qml")] or docs[:0]
        if not docs:
            raise common.HarnessError("replay case not regenerated (different seed/tier?)")
    res, out = doccheck.translate_docs(docs, modes=("generate",), want=("ui",), tag="c11")
    shapes = set()
    n_acc = n_rej = n_obj = n_addaction = n_rej_decorated = n_acc_decorated = n_stray_rejected = n_stray_present = 0
    kinds = {}
    samples = []
    rejected_msgs = {}
    for d, r in zip(docs, res):
        if r is None:
            v.inconc("no result")
            continue
        g = r["generate"][0]
        if g.get("panic"):
            v.inconc("panic (C07's business): %s" % g["panic"])
            continue
        if not doccheck.accepted(g) and d.decorated:
            n_rej_decorated += 1
            continue
        if d.stray:
            if not doccheck.accepted(g):
                n_stray_rejected += 1
                continue
            try:
                names = {e.attrs.get("name") for e in uiparse.parse(g["ui"]).walk()}
            except uiparse.UiSyntaxError as e:
                v.inconc("ill-formed .ui (C09's business): %s" % e)
                continue
            if d.stray[0] not in names:
                v.violation("child-dropped:in-" + d.stray[1], "object %s declared inside a %s is accepted without a diagnostic but appears "
                            "nowhere in the form" % d.stray, {"qml": d.source, "ui": g["ui"]})
            else:
                n_stray_present += 1
            continue
        if d.decorated:
            n_acc_decorated += 1
        if not doccheck.accepted(g):
            n_rej += 1
            for dg in g.get("diagnostics", [])[:1]:
                rejected_msgs[dg["message"][:80]] = rejected_msgs.get(dg["message"][:80], 0) + 1
            continue
        n_acc += 1
        try:
            root = uiparse.parse(g["ui"])
        except uiparse.UiSyntaxError as e:
            v.inconc("ill-formed .ui (C09's business): %s" % e)
            continue
        mapping, alarms = doccheck.match_tree(d, root)
        for code, a in alarms:
            v.violation("tree-" + code, a, {"qml": d.source, "ui": g["ui"], "alarm": a})
            break
        if alarms:
            continue
        # addaction sequences
        bad = False
        for o in d.objects():
            if o.kind not in ("widget", "menu"):
                continue
            e = mapping[o]
            got = [c.attrs.get("name") for c in e.children if c.tag == "addaction"]
            exp = doccheck.expected_addactions(o, mapping)
            n_addaction += len(exp)
            if got != exp:
                which = "explicit" if getattr(o, "explicit_actions", None) is not None else "implicit"
                v.violation("addaction-" + which,
                            "object %s (%s): addaction sequence %r, expected %r (%s list)" % (o.name_hint(), o.cls, got, exp, which),
                            {"qml": d.source, "ui": g["ui"], "object": o.name_hint(), "expected": exp, "observed": got})
                bad = True
                break
        if bad:
            continue
        objs = d.objects()
        n_obj += len(objs)
        for o in objs:
            kinds[o.kind] = kinds.get(o.kind, 0) + 1
        if len(objs) >= 4:
            shapes.add(doccheck.doc_shape(d))
        if len(samples) < 3 and 5 <= len(objs) <= 12 and any(o.kind == "layout" for o in objs) \
                and any(o.kind in ("action", "menu") for o in objs):
            samples.append(doccheck.sample_of(d, g["ui"]))
    # ---- several sources in one invocation of the CLI (with and without --no-dynamic-binding): each form holds its own tree
    import os
    import subprocess
    wd = common.workdir("c11cli")
    okdocs = [d for d, r in zip(docs, res) if r and doccheck.accepted(r["generate"][0]) and not d.decorated and not d.stray]
    n_multi = 0
    for k in range(4 if tier == "quick" else 40):
        if len(okdocs) < 4:
            break
        pd = os.path.join(wd, "p%d" % k)
        os.makedirs(pd)
        picks = rng.sample(okdocs, rng.randint(2, 4))
        names = ["Form%s" % "ABCD"[i] for i in range(len(picks))]
        for n, d in zip(names, picks):
            open(os.path.join(pd, n + ".qml"), "w").write(d.source)
        opts = ["--no-dynamic-binding"] if k % 2 else []
        p = subprocess.run([common.CLI, "generate-ui", "--foreign-types", common.METATYPES, "--foreign-types", common.VF_TYPES] + opts
                           + [n + ".qml" for n in names], cwd=pd, capture_output=True, env=dict(os.environ, NO_COLOR="1"), timeout=300)
        if p.returncode != 0:
            v.inconc("multi-source invocation refused: %s" % p.stderr.decode("utf-8", "replace")[-200:])
            continue
        for n, d in zip(names, picks):
            ui = open(os.path.join(pd, n.lower() + ".ui"), "rb").read().decode("utf-8", "replace")
            rp = {"qml": d.source, "ui": ui[:6000], "invocation": opts + [x + ".qml" for x in names], "file": n.lower() + ".ui"}
            try:
                root = uiparse.parse(ui)
            except uiparse.UiSyntaxError as e:
                v.violation("tree-multi-source", "%s written by a %d-source invocation is not a single well-formed form: %s" % (n.lower() + ".ui", len(names), e), rp)
                break
            mapping, alarms = doccheck.match_tree(d, root)
            n_multi += 1
            if alarms:
                v.violation("tree-multi-source", "%s written by a %d-source invocation: %s" % (n.lower() + ".ui", len(names), alarms[0][1]), rp)
                break
    n_kind = 0 if replay else same_name_same_kind(v, rng)
    for i in out.cpu_violations:
        v.inconc("cpu budget (C07's business) %s" % i)
    total = n_acc + n_rej
    if total and n_rej > 0.25 * total:
        v.inconc("generator produced %d rejected documents of %d: %r" % (n_rej, total, rejected_msgs))
    v.assumptions = ["generator's own tree is the reference; documents rejected by qmluic are not judged here (C05/C04)"]
    # the tree on disk is the tree of the CURRENT source (objects reordered / renamed without changing the length of the form)
    _w = regen.HEAD + "QWidget {\n    QVBoxLayout {\n%s    }\n}\n"
    n_hist = 0 if replay else regen.regenerated_equals_fresh(v, "c11hist", [
        (_w % "        QLabel { id: aa }\n        QLabel { id: bb }\n", _w % "        QLabel { id: bb }\n        QLabel { id: aa }\n"),
        (_w % "        QLabel { id: aa }\n        QFrame { id: bb }\n", _w % "        QFrame { id: aa }\n        QLabel { id: bb }\n"),
        (_w % "        QLabel { id: aa; QLabel { id: cc } }\n        QLabel { id: bb }\n", _w % "        QLabel { id: aa }\n        QLabel { id: bb; QLabel { id: cc } }\n"),
    ], "stale-tree-after-edit", "objects reordered")
    return v.finish(
        histories_on_disk=n_hist, evaluations=total, distinct_nontrivial=len(shapes),
        rule="random object trees (depth<=7, fan-out<=8+) over widgets, 4 layout classes, spacers, actions, separators, menus, "
             "tab widgets, main windows; tree isomorphism + addaction sequence; distinct = distinct (class, has-id, children) "
             "tree shape with >= 4 objects",
        samples=samples, accepted=n_acc, rejected=n_rej, rejected_reasons=rejected_msgs, objects_matched=n_obj,
        objects_by_kind=kinds, forms_of_multi_source_invocations_matched=n_multi, same_name_projects_compared=n_kind, annotated_documents_rejected=n_rej_decorated, misplaced_children_rejected=n_stray_rejected, misplaced_children_present=n_stray_present, annotated_documents_accepted=n_acc_decorated, addaction_entries_checked=n_addaction, floor=50 if tier == "quick" else 500,
    )
