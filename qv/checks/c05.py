"""C05 — static typing discipline: ill-typed programs are rejected, valid ones accepted."""
import copy
import json

from .. import cbdoc, common, exprdoc, gen_expr as ge
from ..gen_expr import BOOL, DOUBLE, INT, MODE, PTR, SLIST, STR, UINT, N

# ---------------------------------------------------------------------------------------------
# catalogue of clear-cut breaking edits.  (clause, property, program).  {X_c}/{X_d}: constant / property-reading operand.
OPER = {"I_c": "7", "I_d": "a.ival", "D_c": "1.5", "D_d": "a.dval", "S_c": '"s"', "S_d": "a.sval", "B_c": "true", "B_d": "a.bval",
        "U_d": "a.uval", "P_d": "a.peer", "M_c": "VfWidget.ModeA", "M_d": "a.mode", "L_d": "a.slist"}

CATALOGUE = [
    # no implicit conversion; int and double never mixed; one common operand type
    ("operand-types", "ival", "{I} + {D}"), ("operand-types", "dval", "{D} + {I}"), ("operand-types", "dval", "{D} * {I_d}"),
    ("operand-types", "sval", "{S} + {I}"), ("operand-types", "sval", "{I} + {S}"), ("operand-types", "ival", "{I} + {B}"),
    ("operand-types", "ival", "{I_d} + {U_d}"), ("operand-types", "ival", "{I_d} - {U_d}"), ("operand-types", "bval", "{I_d} == {U_d}"),
    ("operand-types", "bval", "{I} == {D}"), ("operand-types", "bval", "{I} < {S}"), ("operand-types", "bval", "{S} == {B}"),
    ("operand-types", "bval", "{M} == {I}"), ("operand-types", "bval", "{P_d} == {I}"), ("operand-types", "bval", "{P_d} == other1"),
    ("operand-types", "ival", "{I} & {B}"), ("operand-types", "ival", "{I} | {D}"), ("operand-types", "dval", "{D} & {D}"),
    ("operand-types", "sval", "{S} - {S}"), ("operand-types", "sval", "{S} * {I}"), ("operand-types", "bval", "{B} + {B}"),
    ("operand-types", "ival", "{I} << {D}"), ("operand-types", "ival", "{D} << {I}"), ("operand-types", "ival", "{I} >> {S}"),
    ("operand-types", "ival", "-{S}"), ("operand-types", "ival", "-{B}"), ("operand-types", "ival", "~{D}"), ("operand-types", "ival", "~{S}"),
    ("operand-types", "bval", "!{I}"), ("operand-types", "bval", "!{S}"), ("operand-types", "bval", "!{P_d}"),
    ("operand-types", "ival", "{B_d} ? {I} : {D}"), ("operand-types", "sval", "{B_d} ? {S} : {I}"), ("operand-types", "ival", "{B_d} ? {I_d} : {U_d}"),
    ("operand-types", "ival", "Math.max({I}, {D})"), ("operand-types", "ival", "Math.min({I_d}, {U_d})"), ("operand-types", "sval", "Math.max({S}, {I})"),
    ("operand-types", "ival", "[{I}, {S}][0]"), ("operand-types", "sval", "[{S}, {I}][0]"), ("operand-types", "bval", "[a, other1].isEmpty()"),
    # two different enums have no common type
    ("operand-types", "bval", "{M} == Qt.PlainText"), ("operand-types", "bval", "{M} != VfWidget.OptX"), ("operand-types", "mode", "{B_d} ? {M} : Qt.NoFocus"),
    ("result-type", "mode", "Qt.NoFocus"), ("result-type", "mode", "VfWidget.OptX"), ("assignment", "ival", "{ a.mode = Qt.RichText; 1 }"),
    ("assignment", "ival", "{ let v: VfWidget.Mode = Qt.PlainText; 1 }"), ("arguments", "ival", "{ a.takeMode(Qt.NoFocus); 1 }"),
    # conditions must be bool
    ("condition", "ival", "{I} ? 1 : 2"), ("condition", "ival", "{S} ? 1 : 2"), ("condition", "ival", "{P_d} ? 1 : 2"),
    ("condition", "ival", "{ if ({I}) { 1 } else { 2 } }"), ("condition", "ival", "{ if ({S_d}) return 1; 2 }"),
    ("condition", "bval", "{I} && {B}"), ("condition", "bval", "{B} || {I}"), ("condition", "bval", "{S} || {B}"), ("condition", "bval", "{P_d} && {B}"),
    ("condition", "ival", "{L_d} ? 1 : 2"), ("condition", "ival", "{M} ? 1 : 2"),
    # unsupported operators and statements
    ("unsupported", "ival", "{I} ** 2"), ("unsupported", "ival", "{I} >>> 1"), ("unsupported", "ival", "{I} ?? 1"),
    ("unsupported", "bval", "{I} in {L_d}"), ("unsupported", "bval", "{P_d} instanceof VfWidget"), ("unsupported", "sval", "typeof {I}"),
    ("unsupported", "ival", "{ let v = {I}; v += 1; v }"), ("unsupported", "ival", "{ let v = {I}; v++; v }"), ("unsupported", "ival", "{ let v = {I}; --v; v }"),
    ("unsupported", "ival", "{ let v = 0; for (let i = 0; i < 3; i++) { v = i } v }"), ("unsupported", "ival", "{ let v = {I}; while (v < 3) { v = v + 1 } v }"),
    ("unsupported", "ival", "{ var v = {I}; v }"), ("unsupported", "ival", "{ let v = 0; do { v = 1 } while (false); v }"),
    ("unsupported", "ival", "({I}, 2)"), ("unsupported", "ival", "void {I}"), ("unsupported", "sval", "`t${{I}}`"), ("unsupported", "ival", "new Foo()"),
    ("unsupported", "ival", "(function() { return 1 })()"), ("unsupported", "ival", "(() => 1)()"), ("unsupported", "ival", "delete a.ival"),
    ("unsupported", "ival", "{ try { 1 } catch (e) { 2 } }"), ("unsupported", "ival", "{ throw 1 }"), ("unsupported", "ival", "{I}?.x"),
    ("unsupported", "ival", "{ lbl: { break lbl } 1 }"),
    # assignment to const / read-only / rvalue
    ("assignment", "ival", "{ const v = {I}; v = 2; v }"), ("assignment", "ival", "{ a.roval = {I}; 1 }"), ("assignment", "ival", "{ a.cval = 1; 1 }"),
    ("assignment", "ival", "{ a.width = {I}; 1 }"), ("assignment", "ival", "{ let v = 1; v = {S}; v }"), ("assignment", "ival", "{ let v: int = {D}; v }"),
    ("assignment", "ival", "{ let v: QString = {I}; 1 }"), ("assignment", "ival", "{ a.sval = {I}; 1 }"), ("assignment", "ival", "{ a.ival = {D}; 1 }"),
    ("assignment", "ival", "{ a.slist[0] = {I}; 1 }"), ("assignment", "ival", "{ let v; 1 }"), ("assignment", "ival", "{ const v: int; 1 }"),
    ("assignment", "ival", "{ let v: VfOther = a; 1 }"), ("assignment", "ival", "{ a.peer = other1; 1 }"), ("assignment", "ival", "{ let v: VfSub = a; 1 }"),
    ("assignment", "ival", "{ let v = null; 1 }"), ("assignment", "ival", "{ let v: NoSuchType = 1; 1 }"),
    # wrong argument count or types
    ("arguments", "ival", "a.twice()"), ("arguments", "ival", "a.twice({I}, {I})"), ("arguments", "ival", "a.twice({S})"), ("arguments", "ival", "a.twice({D})"),
    ("arguments", "ival", "a.sum({I})"), ("arguments", "sval", "a.greet({I})"), ("arguments", "ival", "Math.max({I})"), ("arguments", "ival", "Math.max({I}, {I}, {I})"),
    ("arguments", "sval", "qsTr({S_d})"), ("arguments", "sval", 'qsTr("a", "b")'), ("arguments", "sval", "qsTr()"), ("arguments", "sval", "qsTr({I})"),
    ("arguments", "ival", "a.noSuchMethod()"), ("arguments", "ival", "a.noSuchProperty"), ("arguments", "ival", "noSuchObject.ival"),
    ("arguments", "ival", "Math.floor({D})"), ("arguments", "ival", "console.nope({I})"), ("arguments", "ival", "a.ival()"), ("arguments", "ival", "a.twice"),
    ("arguments", "ival", "{ a.takeW(null); 1 }".replace("null", "{I}")), ("arguments", "ival", "{ a.takeMode({I}); 1 }"),
    # result type not assignable to the bound property
    ("result-type", "sval", "{I}"), ("result-type", "ival", "{S}"), ("result-type", "ival", "{B}"), ("result-type", "bval", "{I}"),
    ("result-type", "ival", "{D}"), ("result-type", "dval", "{I}"), ("result-type", "ival", "{M}"), ("result-type", "mode", "{I}"),
    ("result-type", "ival", "{U_d}"), ("result-type", "uval", "{I_d}"), ("result-type", "peer", "other1"), ("result-type", "peer", "{I}"),
    ("result-type", "slist", "{S}"), ("result-type", "sval", "{L_d}"), ("result-type", "ival", "{ if ({B_d}) return 1; }"),
    ("result-type", "ival", "{ if ({B_d}) { return 1 } else { return {S} } }"), ("result-type", "ival", "{ let v = {I}; }"),
    ("result-type", "ival", "{ switch ({I_d}) { case 1: return 1; } }"), ("result-type", "slist", "[{I}, {I}]"), ("result-type", "ival", "a"),
    ("result-type", "roval", "{I}"), ("result-type", "width", "{I}"),
    # null belongs to pointers, [] to lists: they have no common type with the other kind
    ("operand-types", "bval", "{P_d} != []"), ("operand-types", "bval", "{L_d} == null"), ("operand-types", "peer", "{B_d} ? a : []"),
    ("operand-types", "slist", '{B_d} ? ["a"] : null'), ("operand-types", "bval", "[a, []].isEmpty()"), ("operand-types", "bval", '[["a"], null].isEmpty()'),
    ("result-type", "slist", '{ if ({B_d}) return null; return ["x"]; }'), ("result-type", "peer", "{ if ({B_d}) return []; return a; }"),
    ("result-type", "peer", "[]"), ("result-type", "slist", "null"),
    # object upcast only: a class with a second, unresolvable base is still not convertible to unrelated classes
    ("result-type", "peer", "plot1"), ("assignment", "ival", "{ a.peer = plot1; 1 }"), ("assignment", "ival", "{ let v: VfWidget = plot1; 1 }"),
    ("arguments", "ival", "{ a.takeMode(plot1); 1 }"), ("operand-types", "bval", "plot1 == a"), ("assignment", "ival", "{ let v: VfOther = plot1; 1 }"),
    # a protected base is no base for conversions
    ("result-type", "peer", "hidden1"), ("assignment", "ival", "{ a.peer = hidden1; 1 }"), ("assignment", "ival", "{ let v: VfWidget = hidden1; 1 }"),
    ("arguments", "ival", "hidden1.ival"), ("operand-types", "bval", "hidden1 == a"),
    # a declaration that is the whole branch of an if / else is scoped to that branch: it shadows nothing afterwards
    ("result-type", "sval", "{ let s = 0; if ({B_d}) let s = {S}; return s; }"), ("assignment", "ival", "{ if ({B_d}) let t = 1; else let t = {S}; a.sval = t; 1 }"),
    ("assignment", "ival", "{ let s = {S}; if ({B_d}) let s = 1; else let s = 2; a.ival = s; 1 }"), ("arguments", "ival", "{ if ({B_d}) let u = 1; u }"),
    # a void call is no argument; a namespace is no type
    ("arguments", "ival", "{ console.log(a.doIt()); 1 }"), ("arguments", "ival", "{ console.warn({I}, a.take({I_d})); 1 }"),
    ("arguments", "ival", "a.twice(a.doIt())"), ("arguments", "ival", "Math.max(a.doIt(), 1)"),
    # a void call is no list element; a list without element type is nothing to print
    ("operand-types", "ival", "{ let v = [a.doIt()]; 1 }"), ("operand-types", "ival", "{ [a.doIt(), a.doIt()]; 1 }"),
    ("operand-types", "ival", "{ let v = [1, 2]; let w = [a.take({I_d})]; v[0] }"), ("arguments", "ival", "{ console.log([]); 1 }"),
    ("arguments", "ival", "{ console.info({S}, []); 1 }"),
    # an enum of another class is another type, also when it is named like the one a flags type wraps
    ("assignment", "ival", "{ a.opts = VfOther.Alt1; 1 }"), ("operand-types", "bval", "a.opts == VfOther.Alt1"),
    ("operand-types", "ival", "{ let o = a.opts | VfOther.Alt1; 1 }"), ("result-type", "opts", "VfOther.Alt1"),
    ("result-type", "opts", "{B_d} ? VfWidget.OptX : VfOther.Alt0"),
    # a list property other than a string list takes lists of its element type only (whether or not the value is a constant)
    ("result-type", "ilist", "[{S}, {S}]"), ("result-type", "ilist", "[a, b]"), ("result-type", "ilist", "[{B_d}]"),
    ("result-type", "ilist", "[\"a\", \"b\"]"), ("result-type", "ilist", "[a.sval]"), ("result-type", "ilist", "{S}"), ("result-type", "ilist", "{I}"),
    ("assignment", "ival", "{ let v: Qt; 1 }"), ("assignment", "ival", "{ let v: Math; 1 }"), ("assignment", "ival", "{ let v: console; 1 }"),
    ("assignment", "ival", "{ let v: void; 1 }"), ("assignment", "ival", "{ let v: Qt = 1; v }"),
    # an inherited property keeps the type it has in the class that declares it
    ("assignment", "ival", "{ badge1.mode3 = VfBadge.Circle; 1 }"), ("operand-types", "bval", "badge1.mode3 == VfBadge.Square"),
    ("assignment", "ival", "{ badge1.shape = VfWidget.ModeA; 1 }"), ("operand-types", "bval", "badge1.shape == badge1.mode3"),
    # every element of an array has to agree with ALL the others
    ("operand-types", "bval", "[a, null, other1].isEmpty()"), ("operand-types", "bval", "[{I_d}, 0, {U_d}].isEmpty()"),
    ("operand-types", "bval", "[[{S_d}], [], [{I_d}]].isEmpty()"), ("operand-types", "bval", "[{S_d}, {S}, {I_d}].isEmpty()"),
    ("operand-types", "bval", "[other1, null, null, a].isEmpty()"),
    # every return of a body has to agree with ALL the others, whatever comes first (an untyped literal first hides nothing)
    ("result-type", "uval", "{ if ({B_d}) return 0; if (!{B_d}) return {I_d}; return {U_d}; }"),
    ("result-type", "ival", "{ if ({B_d}) return 1; if (!{B_d}) return {U_d}; return {I_d}; }"),
    ("result-type", "dval", "{ if ({B_d}) return {D_d}; if (!{B_d}) return {I_d}; return {D}; }"),
    ("result-type", "ival", "{ switch ({I_d}) { case 1: return 0; case 2: return {U_d}; default: return {I_d}; } }"),
    ("result-type", "sval", "{ if ({B_d}) return {S}; if (!{B_d}) return {I_d}; return {S_d}; }"),
    # ... nor does an untyped literal in the middle or at the end
    ("result-type", "ival", "{ if ({B_d}) return {U_d}; if (!{B_d}) return 1; return 0; }"),
    ("result-type", "uval", "{ if ({B_d}) return {I_d}; if (!{B_d}) return 1; return 0; }"),
    ("result-type", "slist", "{ if ({B_d}) return [{I_d}]; if (!{B_d}) return []; return [{S_d}]; }"),
    ("result-type", "peer", "{ if ({B_d}) return other1; if (!{B_d}) return null; return a; }"),
    ("result-type", "dval", "{ if ({B_d}) return {I_d}; if (!{B_d}) return 0; return 1; }"),
    # (rows found with a coverage measurement of the quick tiers: constructs whose rejecting code no workload had reached)
    # a switch has at most one default clause; a subscript takes an integer index and a list operand
    ("unsupported", "ival", "{ switch ({I_d}) { default: return 1; default: return 2; } }"),
    ("unsupported", "ival", "{ switch ({I_d}) { case 1: return 0; default: return 1; case 2: return 3; default: return 2; } }"),
    ("operand-types", "sval", "{L_d}[{S}]"), ("operand-types", "sval", "{L_d}[{B}]"), ("operand-types", "sval", "{L_d}[{D}]"),
    ("operand-types", "ival", "{I_d}[0]"), ("operand-types", "sval", "{S_d}[0]"), ("operand-types", "ival", "[1, 2][{D}]"),
    # `as` converts among numbers, from enum / bool to integer, to void, and out of a QVariant - nothing else
    ("operand-types", "ival", "({S} as int)"), ("operand-types", "sval", "({I} as QString)"), ("operand-types", "bval", "({I} as bool)"),
    ("operand-types", "peer", "({P_d} as VfSub)"), ("operand-types", "mode", "({I} as VfWidget.Mode)"), ("operand-types", "dval", "({S} as double)"),
    ("operand-types", "slist", "({S} as QStringList)"), ("operand-types", "ival", "({P_d} as int)"), ("operand-types", "bval", "({P_d} as bool)"),
    ("result-type", "ival", "({I} as void)"), ("result-type", "ival", "a.vval"), ("result-type", "sval", "a.vval"), ("result-type", "ival", "(a.vval as QString)"),
    ("result-type", "sval", "(a.vval as int)"), ("operand-types", "ival", "a.vval + 1"), ("operand-types", "bval", "a.vval == 1"),
    ("operand-types", "ival", "{ ([] as void); 1 }"), ("condition", "ival", "a.vval ? 1 : 2"), ("arguments", "ival", "a.twice(a.vval)"), ("assignment", "ival", "{ a.ival = a.vval; 1 }"),
]

# well-typed controls built from the same vocabulary (must be accepted)
CONTROLS = [
    ("ival", "{I} + {I_d}"), ("dval", "{D} + {D_d}"), ("sval", "{S} + {S_d}"), ("bval", "{I} == {I_d}"), ("bval", "{B} && {B_d}"),
    ("uval", "{U_d} + 1"), ("ival", "{I_d} << {U_d}"), ("ival", "{B_d} ? {I} : {I_d}"), ("ival", "Math.max({I}, {I_d})"),
    ("ival", "({D_d} as int) + ({U_d} as int) + ({B_d} as int) + ({M_d} as int)"), ("dval", "({I_d} as double) * {D}"),
    ("bval", "{P_d} == null || {P_d} != a"), ("peer", "{B_d} ? a : {P_d}"), ("peer", "sub1"), ("ival", "{ let v: VfWidget = sub1; v.ival }"),
    ("ival", "{ const v = {I}; let w: int = v; w = w + 1; w }"), ("sval", "qsTr(\"x %1\").arg({I}).arg({S_d})"), ("slist", "[{S}, {S_d}]"),
    ("sval", "{L_d}[{I_d}]"), ("bval", "{S_d}.isEmpty() || {L_d}.isEmpty()"), ("ival", "{ switch ({M_d}) { case VfWidget.ModeA: return 1; default: return 2 } }"),
    ("ival", "a.twice({I}) + a.sum({I_d}, 2)"), ("ival", "{ a.ival2 = {I}; a.peer = sub1; a.doIt(); 1 }"), ("ival", "~{I_d} ^ {I} % 3"),
    ("ival", "{ console.log({I}, {S}, {D}); 1 }"), ("mode", "{B_d} ? VfWidget.ModeB : {M_d}"), ("ival", "a.cval + a.peer.peer2.ival"),
    ("dval", "-{D_d} / 2.0"), ("bval", "{S} < {S_d}"), ("bval", "!{B_d} != ({I_d} >= {I})"), ("ival", "{I_d} === 3 ? 1 : 2"),
    # upcast of a class with an additional unresolvable base to its resolvable base; null / [] with their own kind
    ("wpeer", "plot1"), ("ival", "{ a.takeW(plot1); a.wpeer = plot1; plot1.level }"), ("bval", "{P_d} != null"),
    ("peer", "{B_d} ? a : null"), ("slist", '{B_d} ? ["a"] : []'), ("wpeer", "hidden1"), ("ival", "hidden1.depth"),
    ("uval", "{ if ({B_d}) return 0; if (!{B_d}) return 7; return {U_d}; }"), ("ival", "{ if ({B_d}) return 0; if (!{B_d}) return {I_d}; return 3; }"),
    ("peer", "{ if ({B_d}) return null; if (!{B_d}) return a; return b; }"),
    ("ival", "{ badge1.mode3 = VfWidget.ModeB; badge1.shape = VfBadge.Circle; 1 }"), ("bval", "badge1.mode3 == VfWidget.ModeA && badge1.shape != VfBadge.Square"),
    ("bval", "[a, null, null].isEmpty()"), ("bval", "[null, a, b].isEmpty()"), ("bval", "[{I_d}, 0, 1].isEmpty()"), ("bval", "[[{S_d}], [], [{S}]].isEmpty()"),
    # documented constructs no workload had reached (coverage measurement): unary plus, console.debug, discarding casts, extraction
    # of the value stored in a QVariant, enum / bool to uint, a list subscripted by uint
    ("ival", "+{I_d}"), ("dval", "+{D_d} - +{D}"), ("ival", "{ console.debug({I}, {S}); 1 }"), ("ival", "{ ({I_d} as void); a.twice({I}) as void; 1 }"),
    ("ival", "(a.vval as int) + {I}"), ("sval", "(a.vval as QString) + {S}"), ("bval", "(a.vval as bool) || {B_d}"), ("dval", "(a.vval as double) * {D}"),
    ("uval", "(a.vval as uint) + {U_d}"), ("peer", "a.vval as VfWidget"), ("uval", "({M_d} as uint) + ({B_d} as uint)"), ("sval", "{L_d}[{U_d}]"),
    ("ival", "{ let v: QVariant = a.vval; (v as int) }"),
]


def expand(tmpl, variant):
    """variant: 'c' (constant operands where a choice exists) or 'd' (property-reading)."""
    out = tmpl
    for k in ("I", "D", "S", "B", "M"):
        out = out.replace("{%s}" % k, OPER["%s_%s" % (k, variant)])
    for k, val in OPER.items():
        out = out.replace("{%s}" % k, val)
    return out


def wrap(prop, prog):
    return ("import qmluic.QtWidgets\nQWidget {\n VfWidget { id: a }\n VfWidget { id: b }\n VfSub { id: sub1 }\n VfOther { id: other1 }\n VfPlot { id: plot1 }\n VfHidden { id: hidden1 }\n VfBadge { id: badge1 }\n"
            " VfWidget {\n  id: t0\n  %s: %s\n }\n}\n" % (prop, prog))


# ---------------------------------------------------------------------------------------------
# random single edits on generated well-typed programs

OTHER = {INT: [DOUBLE, STR, BOOL, MODE], DOUBLE: [STR, BOOL, "INTVAR"], STR: [INT, BOOL, DOUBLE], BOOL: [INT, STR, DOUBLE],
         UINT: ["INTVAR", DOUBLE, STR], MODE: [INT, BOOL, STR], PTR: [INT, STR, BOOL], SLIST: [STR, INT]}


def ill_typed_replacement(g, t):
    o = g.rng.choice(OTHER[t] if not (g.profile == "constant" and t in (INT, UINT)) else [DOUBLE, STR, BOOL])
    if o == "INTVAR":
        return N("prop", INT, (N("obj", PTR, v="a", const=True),), v="ival")
    e = g.expr(o, g.max_depth - 1)
    if t == UINT and o == INT and e.const:
        return N("prop", INT, (N("obj", PTR, v="a", const=True),), v="ival")
    return e


def mutate(g, prog):
    """One type-breaking edit somewhere in `prog` (a deep copy).  -> (new prog, description) or None."""
    rng = g.rng
    p = copy.deepcopy(prog)
    g.locals, g.hidden = [{}], set()   # replacement expressions must not refer to variables (scopes differ per site)
    sites = []
    for n in p.walk():
        if n.k in ("bin", "cmp", "minmax") and n.a[0].t in OTHER and not (n.k == "bin" and n.v in ("<<", ">>")):
            sites.append(("operand", n))
        if n.k == "tern":
            sites.append(("condition", n))
            if n.t in OTHER:
                sites.append(("branch", n))
        if n.k == "logic":
            sites.append(("logic-operand", n))
        if n.k == "un" and n.v == "!":
            sites.append(("not-operand", n))
        if n.k == "if":
            sites.append(("if-condition", n))
    if not sites:
        return None
    kind, n = rng.choice(sites)
    if kind == "operand":
        i = rng.randrange(2)
        t = n.a[i].t
        a = list(n.a)
        if t in (INT, UINT) and n.a[1 - i].const:
            # the sibling is an untyped literal: it would adopt int as well as uint, so swap in a non-integer
            a[i] = g.expr(rng.choice((STR, BOOL)), g.max_depth - 1) if rng.random() < 0.5 else N("prop", DOUBLE, (N("obj", PTR, v="a", const=True),), v="dval")
            n.a = tuple(a)
            return p, "operand of %s %s replaced by %s" % (n.k, n.v, a[i].t)
        a[i] = ill_typed_replacement(g, t)
        n.a = tuple(a)
        return p, "operand of %s %s replaced by %s" % (n.k, n.v, a[i].t)
    if kind == "branch":
        i = rng.choice((1, 2))
        a = list(n.a)
        if n.t in (INT, UINT) and n.a[3 - i].const:
            # the other branch is an untyped literal: it adopts int as well as uint, so swap in a non-integer
            a[i] = g.expr(rng.choice((STR, BOOL)), g.max_depth - 1) if rng.random() < 0.5 else N("prop", DOUBLE, (N("obj", PTR, v="a", const=True),), v="dval")
        else:
            a[i] = ill_typed_replacement(g, n.t)
        n.a = tuple(a)
        return p, "ternary branch of type %s replaced by %s" % (n.t, a[i].t)
    nb = rng.choice((INT, STR, PTR, DOUBLE))
    e = g.expr(nb, g.max_depth - 1) if nb != PTR else g.obj_expr(g.max_depth)
    a = list(n.a)
    idx = 0 if kind in ("condition", "if-condition", "not-operand") else rng.randrange(2)
    a[idx] = e
    n.a = tuple(a)
    return p, "%s replaced by %s expression" % (kind, nb)


def run(tier, seed, replay=None):
    v = common.Verdict("C05", tier, seed)
    rng = common.rng_for(seed, "C05", tier)
    n_docs = 300 if tier == "quick" else 2000
    jobs, meta = [], []

    def add(kind, clause, prop, prog, expect_accept, note=""):
        jobs.append({"id": "j%d" % len(jobs), "source": wrap(prop, prog), "modes": ["generate"], "want": ["observed"], "defassign": False})
        meta.append((kind, clause, prop, prog, expect_accept, note))

    for clause, prop, tmpl in CATALOGUE:
        for variant in ("c", "d"):
            prog = expand(tmpl, variant)
            if variant == "d" and prog == expand(tmpl, "c"):
                continue
            add("catalogue", clause, prop, prog, False, variant)
    for prop, tmpl in CONTROLS:
        for variant in ("c", "d"):
            add("control", "well-typed", prop, expand(tmpl, variant), True, variant)
    # documented type annotation that is in fact rejected (listed finding): kept apart with its own signature
    add("control", "annotation-QStringList", "ival", "{ let v: QStringList = a.slist; v.isEmpty() ? 1 : 2 }", True)

    # generated programs: valid ones must be accepted, their single-edit mutants rejected
    objs = [ge.ObjSpec("a", "VfWidget"), ge.ObjSpec("b", "VfWidget"), ge.ObjSpec("sub1", "VfSub")]
    n_gen = 0
    for i in range(n_docs):
        for profile in ("dynamic", "constant"):
            env = ge.Env(objs, owner=ge.ObjSpec("t0", "VfWidget"), owner_free=exprdoc.OWNER_FREE)
            g = ge.Gen(rng, env, profile=profile, max_depth=rng.choice((2, 3)))
            for t in ge.VALUE_TYPES:
                if t == UINT and profile == "constant":
                    continue
                prog = g.program(t)
                src = ge.print_program(prog, None)
                add("generated", "well-typed:" + profile, ge.TARGET_PROP[t], src, True)
                n_gen += 1
                for _ in range(2):
                    m = mutate(g, prog)
                    if m is not None:
                        add("mutant", "single-edit:" + profile, ge.TARGET_PROP[t], ge.print_program(m[0], None), False, m[1])
    # callback bodies
    for i in range(n_docs // 2):
        d = cbdoc.CbDoc(rng, n_handlers=6, max_depth=2)
        jobs.append({"id": "j%d" % len(jobs), "source": d.source, "modes": ["generate"], "want": ["observed"], "defassign": False})
        meta.append(("callbacks", "well-typed:callbacks", "-", d.source, True, ""))
    # handlers with incompatible parameters / on non-signals / on true overloads
    base_doc = cbdoc.CbDoc(rng, n_handlers=0)
    for sid, text, frag in cbdoc.NEGATIVE:
        jobs.append({"id": "j%d" % len(jobs), "source": base_doc.to_qml(extra=(sid, text)), "modes": ["generate"], "want": ["observed"], "defassign": False})
        meta.append(("catalogue", "callback-parameters", "-", text, False, frag))
    if replay:
        rp = json.load(open(replay))
        keep = [i for i, j in enumerate(jobs) if j["source"] == rp.get("qml")]
        jobs = [dict(jobs[i], id="j%d" % n) for n, i in enumerate(keep)]
        meta = [meta[i] for i in keep]
    out = common.translate(jobs, tag="c05")
    stats = {}
    distinct = set()
    samples = []
    n_ir = 0
    for ji, (kind, clause, prop, prog, expect_accept, note) in enumerate(meta):
        rs = out.results.get("j%d" % ji)
        if not rs:
            v.inconc("no result")
            continue
        r = rs[0]
        qml = jobs[ji]["source"]
        if r.get("panic"):
            v.inconc("panic (C07's business): %s" % r["panic"])
            continue
        accepted = r.get("built") and not r.get("has_error") and not r.get("has_syntax_error")
        errs = [d["message"] for d in r.get("diagnostics", []) if d["kind"] == "error"] + (["syntax error"] if r.get("has_syntax_error") else [])
        key = "%s/%s" % (kind, "accepted" if accepted else "rejected")
        stats[key] = stats.get(key, 0) + 1
        # independent judge of everything that was accepted: the IR typing monitor
        for o in r.get("observed", []):
            n_ir += 1
            if accepted and o["alarms_type"]:
                v.violation("ir-typing", "accepted code violates the typing rules: %s" % o["alarms_type"][0],
                            {"qml": qml, "object": o["object"], "path": o["path"], "alarms": o["alarms_type"]})
        if expect_accept and not accepted:
            if "comment" in " ".join(errs):
                continue
            sig = "valid-rejected:" + clause.split(":")[0]
            if clause == "annotation-QStringList" and errs[:1] == ["undefined type"]:
                sig = "annotation-QStringList-undefined"
            v.violation(sig, "well-typed program of the documented subset rejected (%s): %r" % (clause, errs[:2]),
                        {"qml": qml, "program": prog if kind != "callbacks" else None, "diagnostics": r.get("diagnostics")})
        elif not expect_accept and accepted:
            v.violation("ill-typed-accepted:" + clause.split(":")[0], "ill-typed / unsupported program accepted (%s%s): %s"
                        % (clause, ", " + note if note else "", prog[:300]), {"qml": qml, "program": prog, "edit": note})
        else:
            distinct.add((kind, clause, prog if kind != "callbacks" else common.shash(prog)))
            if len(samples) < 5 and kind in ("mutant", "catalogue") and len(prog) < 300 and clause not in [s["clause"] for s in samples]:
                samples.append({"clause": clause, "edit": note, "property": prop, "program": prog, "diagnostics": errs[:2]})
    v.assumptions = ["accept side: generator types follow docs/language.md (no implicit conversion, literal adoption, bool conditions)",
                     "reject side: only edits that are unambiguously ill-typed / unsupported by the documented rules",
                     "IR typing monitor (harness/src/monitors.rs) re-derives every rvalue type without calling typeutil"]
    return v.finish(
        evaluations=len(meta), distinct_nontrivial=len(distinct),
        rule="catalogue of %d breaking edits x constant / property-reading operands, %d controls, %d generated programs (dynamic and "
             "constant profile) each with up to two single-edit mutants (operand of another type, non-bool condition, mismatching "
             "ternary branch), callback documents; distinct = distinct (kind, clause, program text) judged as expected"
             % (len(CATALOGUE), len(CONTROLS), n_gen),
        samples=samples, outcomes=stats, ir_bodies_type_checked=n_ir, floor=200,
    )
