"""C02 — dynamic bindings stay current when any property they read changes."""
import copy
import json
import os
from concurrent.futures import ThreadPoolExecutor

from .. import common, cxxmodel, cxxrun, exprdoc, gen_expr as ge
from .c01 import translate_docs

SETTER = {}
for _p, _t in exprdoc.VF_ALL:
    SETTER[_p] = "set" + _p[0].upper() + _p[1:]
QT_SETTER = {("spin", "value"): "setValue", ("chk", "checked"): "setChecked", ("edit", "text"): "setText"}

NEGATIVE = [
    ("ival", "a.nonotify + 1", "unobservable property"),
    ("ival", "a.peer.nonotify", "unobservable property"),
    ("ival", "{ let w = a.peer; w.nonotify * 2 }", "unobservable property"),
    ("bval", "a.nonotify > 0 && a.bval", "unobservable property"),
    ("ival", "(a.bval ? a : b).nonotify", "unobservable property"),
    ("ival", "a.bindonly + 1", "unobservable property"),
    ("ival", "a.ival + a.peer.bindonly", "unobservable property"),
    ("bval", "{ let w = a.bval ? a : b; w.bindonly > 2 }", "unobservable property"),
]
POSITIVE = [("ival", "a.cval + a.ival", "")]   # CONSTANT property: nothing to observe, must be accepted


def settle(doc, state):
    """Reference fix point of the binding network: targets are evaluated in order (acyclic by construction).
    -> new state, or raises Undefined."""
    st = state
    for b in doc.bindings:
        val, _ = ge.evaluate(b.prog, st, owner=b.target)
        st[b.target][b.prop] = val
    return st


def initial_state(doc, rng):
    """A mild, non-null start state; bindings that are undefined in it are removed from the document (before it is
    translated): nothing is claimed for them at setup()."""
    st = doc.make_states(1)[0]
    ids = [o.id for o in doc.objects if o.is_vf()]
    for oid in ids + doc.targets:
        for p in ("peer", "peer2"):
            if st[oid][p] is None:
                st[oid][p] = rng.choice(ids)
        st[oid]["slist"] = (st[oid]["slist"] + ["a", "b", "c"])[:5]
    cur = copy.deepcopy(st)
    keep = []
    for b in doc.bindings:
        try:
            val, _ = ge.evaluate(b.prog, cur, owner=b.target)
            cur[b.target][b.prop] = val
            keep.append(b)
        except ge.Undefined:
            pass
    if len(keep) != len(doc.bindings):
        doc.bindings = keep
        doc.source = doc.to_qml()
    return cur, st


def make_history(doc, rng, state, n_steps):
    """[(obj, prop, type, value, kind)] with the reference state after each step; every step keeps all bindings defined."""
    ids = [o.id for o in doc.objects if o.is_vf()]
    steps, states = [], []
    cur = copy.deepcopy(state)
    read_props = set()
    for b in doc.bindings:
        for n in b.prog.walk():
            if n.k == "prop":
                read_props.add(n.v)
    last_repoint = None
    for k in range(n_steps):
        for attempt in range(12):
            r = rng.random()
            oid = rng.choice(ids + ["spin", "chk", "edit"])
            if oid in exprdoc.QT_STATE:
                p, t = exprdoc.QT_STATE[oid][0]
                kind = "set-read-property"
            elif r < 0.3:
                p, t = rng.choice(("peer", "peer2")), ge.PTR
                kind = "re-point"
            elif r < 0.4 and last_repoint:
                # change the object an intermediate pointer USED to point to: a stale observer must be harmless
                oid = last_repoint
                p, t = rng.choice([(pp, tt) for pp, tt in exprdoc.VF_ALL if tt not in (ge.PTR,)])
                kind = "change-old-peer"
            else:
                p, t = rng.choice(exprdoc.VF_ALL)
                kind = "set-read-property" if p in read_props else "set-unread-property"
            if t == ge.PTR:
                val = rng.choice(ids + [None])
                if val is None:
                    kind = "null-pointer"
            else:
                val = doc.value(t, rng.random() < 0.6, [], [], ids)
            if cur[oid][p] == val:
                continue
            nxt = copy.deepcopy(cur)
            nxt[oid][p] = val
            try:
                nxt = settle(doc, nxt)
            except ge.Undefined:
                continue
            if t == ge.PTR and cur[oid][p] is not None:
                last_repoint = cur[oid][p]
            steps.append((oid, p, t, val, kind))
            states.append(nxt)
            cur = nxt
            break
    return steps, states


def driver(doc, init_fields, steps):
    L = [exprdoc.DRIVER_HEAD, "int main() {", "    QWidget root;", "    Ui::MyType ui;", "    ui.setupUi(&root);",
         "    UiSupport::MyType sup(&root, &ui);", "    std::map<std::string, QObject *> objs;"]
    for oid in [o.id for o in doc.objects] + doc.targets:
        L.append("    objs[\"%s\"] = ui.%s;" % (oid, oid))
    L += ["    QvmStates st;", "    if (!st.load(\"states.txt\")) return 90;",
          "    qvm::quiet() = true; st.apply(objs, 0); qvm::quiet() = false;",
          "    qvm::tag() = \"setup\"; qvm::put(\"\\\"ev\\\":\\\"begin\\\"\");", "    sup.setup();", "    qvm_dump(objs);",
          "    qvm::put(\"\\\"ev\\\":\\\"end\\\"\");"]
    for k, (oid, p, t, val, kind) in enumerate(steps):
        setter = QT_SETTER.get((oid, p)) or SETTER[p]
        L.append("    qvm::tag() = \"step%d\"; qvm::put(\"\\\"ev\\\":\\\"begin\\\"\");" % k)
        L.append("    ui.%s->%s(%s);" % (oid, setter, cxxrun.cxx_literal(t, val)))
        L.append("    qvm_dump(objs);")
        L.append("    qvm::put(\"\\\"ev\\\":\\\"end\\\"\");")
    L += ["    qvm::tag() = \"end\";", "    qvm::put(\"\\\"ev\\\":\\\"done\\\"\");", "    return 0;", "}"]
    return "\n".join(L) + "\n"


def decode_dump(ev):
    return {o: {p: cxxrun.decode(v) for p, v in props.items()} for o, props in ev["state"].items()}


def regenerated_bindings_are_current(v):
    """A binding is only current if the code on disk is the code of the CURRENT source: the source is edited in ways that leave the
    .ui byte-identical (only a binding expression or a handler changes) and generated again over the previous outputs."""
    import subprocess
    wd = common.workdir("c02regen")
    env = dict(os.environ, NO_COLOR="1")
    head = "import qmluic.QtWidgets\nQWidget {\n    QCheckBox { id: sel }\n    QLineEdit { id: e1 }\n    QLineEdit { id: e2 }\n"
    revisions = [
        ("    QLabel { text: e1.text }\n}\n", "    QLabel { text: sel.checked ? e1.text : e2.text }\n}\n"),
        ("    QLabel { text: e1.text; enabled: sel.checked }\n}\n", "    QLabel { text: e1.text; enabled: !sel.checked }\n}\n"),
        ("    QLabel { text: e1.text }\n    QPushButton { onClicked: e1.clear() }\n}\n", "    QLabel { text: e1.text }\n    QPushButton { onClicked: e2.clear() }\n}\n"),
    ]
    n = 0
    for k, (v1, v2) in enumerate(revisions):
        hist, fresh = os.path.join(wd, "h%d" % k), os.path.join(wd, "f%d" % k)
        os.makedirs(hist)
        os.makedirs(fresh)
        cmd = [common.CLI, "generate-ui", "--foreign-types", common.METATYPES, "Form.qml"]
        open(os.path.join(hist, "Form.qml"), "w").write(head + v1)
        p1 = subprocess.run(cmd, cwd=hist, capture_output=True, env=env, timeout=120)
        open(os.path.join(hist, "Form.qml"), "w").write(head + v2)
        p2 = subprocess.run(cmd, cwd=hist, capture_output=True, env=env, timeout=120)
        open(os.path.join(fresh, "Form.qml"), "w").write(head + v2)
        p3 = subprocess.run(cmd, cwd=fresh, capture_output=True, env=env, timeout=120)
        if p1.returncode or p2.returncode or p3.returncode:
            v.inconc("regeneration scenario refused")
            continue
        n += 1
        a, b = open(os.path.join(hist, "uisupport_form.h")).read(), open(os.path.join(fresh, "uisupport_form.h")).read()
        if a != b:
            v.violation("stale:code-of-an-earlier-revision", "after an edit that changes only dynamic code (the .ui stays byte-identical) and a "
                        "second run, the support header on disk is not the code of the current source", {"qml_before": head + v1, "qml_now": head + v2,
                                                                                                          "header_on_disk": a, "header_of_current_source": b})
    return n


def run(tier, seed, replay=None):
    v = common.Verdict("C02", tier, seed)
    rng = common.rng_for(seed, "C02", tier)
    n_docs = 40 if tier == "quick" else 800
    n_steps = 30 if tier == "quick" else 60
    cxxmodel.ensure_model()
    docs = []
    for i in range(n_docs):
        d = exprdoc.ExprDoc(rng, n_targets=2, max_depth=rng.choice((2, 3)), cascade=True,
                            types=rng.sample(ge.VALUE_TYPES, 4) if i % 2 else None, gadget_members=(i % 3 == 2))
        docs.append(d)
    if replay:
        rp = json.load(open(replay))
        docs = [d for d in docs if d.source == rp.get("qml") or any(b.src == rp.get("program") for b in d.bindings)]
        if not docs:
            raise common.HarnessError("replay case not regenerated (different seed/tier?)")
    inits = [initial_state(d, rng) for d in docs]
    results, rejected = translate_docs(docs, "c02", want=("ui", "header", "observed"))
    base = common.workdir("c02")
    work = []
    n_dep_bodies = n_reads = n_observe = 0
    for i, (d, r) in enumerate(zip(docs, results)):
        if r is None or r.get("panic"):
            v.inconc("no translation result / panic")
            continue
        if not (r.get("built") and not r.get("has_error") and not r.get("has_syntax_error")) or not d.bindings:
            v.inconc("document still rejected")
            continue
        # ---- online dependency monitor (hook): every non-constant pointer property read is covered
        for o in r.get("observed", []):
            if o["kind"] != "property" or o["constant"]:
                continue
            n_dep_bodies += 1
            n_reads += o["n_read_property"]
            n_observe += o["n_observe"]
            if o["alarms_dep"]:
                v.violation("ir-dependency", "binding %s of %s: %s" % (".".join(o["path"]), o["object"], o["alarms_dep"][0]),
                            {"qml": d.source, "object": o["object"], "path": o["path"], "alarms": o["alarms_dep"], "ir": o.get("ir")})
        # constant bindings live in the .ui, not in the network
        d.resolve_functions(r["header"])
        probe_states = d.make_states(6)
        for b in d.bindings:
            if not b.func:
                dep = d.state_dependent(b, probe_states)
                if dep:
                    v.violation("stale:embedded-as-constant", "binding %s.%s is treated as a constant (no update code) but its source expression "
                                "denotes %r in one state and %r in another: it can never be current" % (b.target, b.prop, dep[0], dep[1]),
                                {"program": b.src, "qml": d.source})
        d.bindings = [b for b in d.bindings if b.func]
        if not d.bindings:
            continue
        settled, init = inits[i]
        try:
            settled = settle(d, copy.deepcopy(init))   # bindings may have been dropped since (constants, rejected ones)
        except ge.Undefined:
            v.inconc("initial state no longer defined after bindings were dropped")
            continue
        steps, states = make_history(d, rng, settled, n_steps)
        cd = os.path.join(base, "d%d" % i)
        try:
            cxxrun.write_case(cd, r["ui"], r["header"], driver(d, init, steps))
            exprdoc.write_plan_files(cd, d, [init], [])
        except cxxmodel.UicError as e:
            v.inconc("mini-uic: %s" % e)
            continue
        work.append((d, cd, settled, steps, states, r))

    def build_and_run(item):
        d, cd, settled, steps, states, r = item
        # no UBSan arithmetic checks here: while a change propagates, a binding may be evaluated in a transient mix of new
        # and old values whose evaluation is undefined; only quiescent states are judged
        ok, err = cxxrun.compile_case(cd, sanitize="address")
        if not ok:
            return item, ("compile", err)
        return item, ("run", cxxrun.run_case(cd))

    distinct = set()
    samples = []
    n_checks = n_steps_checked = 0
    kinds = {}
    ev_counts = {"connect": 0, "disconnect": 0, "emit": 0, "write": 0, "assert": 0}
    with ThreadPoolExecutor(max_workers=common.NCPU) as ex:
        for item, (kind, payload) in ex.map(build_and_run, work):
            d, cd, settled, steps, states, r = item
            if kind == "compile":
                v.inconc("does not compile (C16's business): %s" % payload[-200:])
                continue
            status, events, err = payload
            dumps = {}
            for e in events:
                if e.get("ev") in ev_counts:
                    ev_counts[e["ev"]] += 1
                if e.get("ev") == "dump":
                    dumps[e["tag"]] = decode_dump(e)
                if e.get("ev") == "assert":
                    v.violation("binding-loop-assert", "binding loop guard fired (%s) although the bindings are acyclic" % e.get("what"),
                                {"qml": d.source, "event": e})
            if status not in (0,) and status != "timeout":
                v.inconc("driver ended with status %r (possibly an undefined transient evaluation): %s" % (status, err.strip()[-200:]))
            seq = [("setup", settled, None)] + [("step%d" % k, states[k], steps[k]) for k in range(len(steps))]
            bad = False
            for tag, exp_state, step in seq:
                if tag not in dumps:
                    break
                got = dumps[tag]
                n_steps_checked += 1
                if step:
                    kinds[step[4]] = kinds.get(step[4], 0) + 1
                for b in d.bindings:
                    n_checks += 1
                    exp = cxxrun.encode_expected(b.t, exp_state[b.target][b.prop])
                    obs = got[b.target][b.prop]
                    # a setter does not store -0.0 over +0.0 (they compare equal): the sign of zero is not judged here
                    nz = ("d", "8000000000000000")
                    if obs == nz:
                        obs = ("d", "0000000000000000")
                    if exp == nz:
                        exp = ("d", "0000000000000000")
                    if obs != exp:
                        sig = "stale-after-setup" if step is None else "stale:" + step[4]
                        v.violation(sig, "after %s the target %s.%s is %r but its expression denotes %r in the current state"
                                    % ("setup()" if step is None else "step %s (%s.%s := %r, %s)" % (tag, step[0], step[1], step[3], step[4]),
                                       b.target, b.prop, obs, exp),
                                    {"program": b.src, "target": "%s.%s" % (b.target, b.prop), "step": str(step), "qml": d.source,
                                     "history": [str(s) for s in steps[:int(tag[4:]) + 1]] if step else [], "expected": str(exp), "observed": str(obs)})
                        bad = True
                        break
                if bad:
                    break
            if not bad:
                for b in d.bindings:
                    vals = {str(st[b.target][b.prop]) for st in [settled] + states}
                    if len(vals) >= 3:
                        distinct.add(common.shash(b.src))
                if len(samples) < 3 and len(steps) >= 10:
                    b = max(d.bindings, key=lambda b: len({str(st[b.target][b.prop]) for st in states}))
                    if len(b.src) < 500:
                        samples.append({"program": b.src, "target": "%s.%s" % (b.target, b.prop),
                                        "history_excerpt": [str(s) for s in steps[:6]],
                                        "target_values_after_each_step": [str(st[b.target][b.prop]) for st in states[:6]]})

    n_regen = regenerated_bindings_are_current(v) if not replay else 0

    # ---- a binding that reads a non-constant property without notify signal is rejected
    jobs = []
    for k, (prop, src, frag) in enumerate(NEGATIVE + POSITIVE):
        qml = ("import qmluic.QtWidgets\nQWidget {\n VfWidget { id: a }\n VfWidget { id: b }\n VfWidget { id: t0; %s: %s }\n}\n" % (prop, src))
        jobs.append({"id": "n%d" % k, "source": qml, "modes": ["generate"], "want": []})
    out = common.translate(jobs, tag="c02n")
    n_neg = 0
    for k, (prop, src, frag) in enumerate(NEGATIVE + POSITIVE):
        rs = out.results.get("n%d" % k)
        if not rs:
            continue
        r = rs[0]
        acc = r.get("built") and not r.get("has_error")
        if k < len(NEGATIVE):
            if acc or not any(frag in x["message"] for x in r.get("diagnostics", [])):
                v.violation("unobservable-accepted", "binding reading a non-constant property without notify signal was not rejected: %s" % src,
                            {"qml": jobs[k]["source"], "diagnostics": r.get("diagnostics")})
            else:
                n_neg += 1
        elif not acc:
            v.violation("constant-property-rejected", "binding reading a CONSTANT property was rejected: %s" % src,
                        {"qml": jobs[k]["source"], "diagnostics": r.get("diagnostics")})
    v.assumptions = ["invariant checked at quiescence only: target == reference value of its expression in the DUMPED state",
                     "setters of the model store the value and emit every overload of the notify signal they can construct; they never clamp",
                     "object deletion is not modelled"]
    return v.finish(
        evaluations=n_checks, distinct_nontrivial=len(distinct),
        rule="bindings reading through named objects, let copies, pointer chains (a.peer.peer2.x), conditional objects and other "
             "bound properties; histories of %d accepted steps (set a read property, re-point / null an intermediate pointer, change "
             "the old peer, set an unread property) each keeping every binding defined; after setup() and after every step all "
             "targets are compared with the reference fix point; distinct non-trivial = program texts whose target took >= 3 "
             "different values" % n_steps,
        samples=samples, documents=len(work), steps_checked=n_steps_checked, regeneration_scenarios=n_regen, steps_by_kind=kinds, model_events=ev_counts,
        ir_bodies_dependency_checked=n_dep_bodies, ir_pointer_property_reads=n_reads, ir_observe_statements=n_observe,
        unobservable_bindings_rejected=n_neg, floor=30,
    )
