"""C04 — every binding is embedded, generated, or diagnosed; errors write nothing."""
import copy
import hashlib
import os
import re
import shutil
import subprocess
from concurrent.futures import ThreadPoolExecutor

from .. import regen, catalog, common, doccheck, gen_doc, uiparse
from ..gen_doc import Binding, DocGen, Group

ENV = dict(os.environ, NO_COLOR="1")

# faults of gen_doc that are a faulty *binding* (type faults concern an object, not a binding)
BINDING_FAULTS = ["unknown-property", "ill-typed", "unsupported-syntax", "dynamic-attached", "read-only", "unknown-signal",
                  "duplicate-binding", "duplicate-grouped", "duplicate-attached", "unknown-attached-type", "ill-typed-pseudo", "unused-attached"]
# further single faulty bindings, planted by this check: (kind, [(property, source)], needs widget kind)
EXTRA_FAULTS = {
    # constant scalar bound to a gadget / variant typed property
    "scalar-to-gadget": [("icon", '"document-open.png"'), ("font", '"Monospace"'), ("locale", '"C"'), ("geometry", "0"),
                         ("palette", '"dark"'), ("sizePolicy", "1"), ("minimumSize", "10"), ("cursor", '"x"'), ("font", "12")],
    "unknown-group-member": [("font.noSuchMember", "1"), ("sizePolicy.foo", "1"), ("minimumSize.depth", "3"), ("geometry.z", "0")],
    "ill-typed-group-member": [("font.bold", '"yes"'), ("font.pointSize", '"ten"'), ("minimumSize.width", '"1"'),
                               ("font.family", "1"), ("sizePolicy.horizontalStretch", "true")],
    "ill-typed-dynamic": [("toolTip", "%INT%"), ("enabled", "%STR%"), ("minimumWidth", "%STR%"), ("windowTitle", "%BOOL%"),
                          ("toolTip", "%BOOL% ? 1 : 2")],
    "unknown-reference": [("toolTip", "noSuchObject.text"), ("enabled", "nothing.checked"), ("toolTip", "%ID%.noSuchProp"),
                          ("minimumWidth", "%ID%.noSuchMethod()")],
    "bad-callback-body": [("onWindowTitleChanged", "noSuchObject.hide()"), ("onWindowTitleChanged", "{ let a = 1; a = \"s\" }"),
                          ("onWindowTitleChanged", "function(a: int, b: int, c: int) {}"), ("onWindowTitleChanged", "1 +")],
    "enum-mismatch": [("focusPolicy", "Qt.AlignLeft"), ("layoutDirection", "1"), ("contextMenuPolicy", '"none"'),
                      ("focusPolicy", "Qt.NoSuchEnumerator"),
                      # a variant of ANOTHER plain (non-flag) enum: constant, grouped and dynamic
                      ("focusPolicy", "Qt.PlainText"), ("layoutDirection", "Qt.Horizontal"), ("contextMenuPolicy", "Qt.StrongFocus"),
                      ("sizePolicy.verticalPolicy", "QSlider.TicksBelow"), ("sizePolicy.horizontalPolicy", "Qt.Vertical"),
                      ("focusPolicy", "%BOOL% ? Qt.PlainText : Qt.RichText"), ("layoutDirection", "%BOOL% ? Qt.Horizontal : Qt.Vertical")],
    "dynamic-to-unwritable": [("width", "%INT%"), ("isActiveWindow", "%BOOL%")],
    # objects that exist only in the .ui (spacers): a non-constant value can take effect nowhere
    "dynamic-on-spacer": [("orientation", "%BOOL% ? Qt.Horizontal : Qt.Vertical"), ("sizeHint.width", "%INT%"), ("sizeHint.height", "%INT% + 1"),
                          ("sizeType", "%BOOL% ? QSizePolicy.Fixed : QSizePolicy.Expanding")],
}


def make_doc(rng, i):
    g = DocGen(rng, hostile_strings=(i % 9 == 0), adversarial_names=(i % 5 == 0),
               dynamic=rng.choice((0.0, 0.2, 0.5, 0.8)), callbacks=rng.choice((0.0, 0.3, 0.6)),
               max_depth=rng.choice((2, 3, 4, 5)), max_fanout=rng.choice((3, 5)), max_objects=rng.choice((4, 10, 25)),
               max_bindings=rng.choice((3, 6, 12, 20)))
    d = g.make()
    d.sources = {"INT": list(g.sources.get("int", [])), "STR": list(g.sources.get("QString", [])), "BOOL": list(g.sources.get("bool", []))}
    return d, g


def functions_of(header):
    """name -> body text of every member function of the emitted class."""
    out = {}
    for m in re.finditer(r"^    (?:[\w:<>\*& ]+?)\b(\w+)\(([^)]*)\)\n    \{\n(.*?)^    \}\n", header, re.S | re.M):
        out[m.group(1)] = m.group(3)
    return out


def receiver_re(elem_name, is_root):
    return r"this->root_" if is_root else r"this->ui_->%s\b" % re.escape(elem_name)


def header_places(header, fns, elem_name, is_root, setter, prop):
    """Update functions of property `prop` that write `setter` on the object.  Two properties of one class may share a setter
    (QLCDNumber::value and ::intValue are both written through display()), so the function is also identified by the property
    name it is generated from (update<Object><Property>[<n>])."""
    rx = re.compile(r"%s->%s\(" % (receiver_re(elem_name, is_root), re.escape(setter)))
    cap = catalog.cap     # ASCII-only, as qtname::to_ascii_capitalized
    nrx = re.compile(r"update%s%s\d*$" % (re.escape(cap(elem_name)), re.escape(cap(prop))))
    return [n for n, body in fns.items() if nrx.match(n) and rx.search(body)]


def callback_places(fns, elem_name, is_root, signal):
    rx = re.compile(r"QObject::connect\(%s, [^;]*?::%s\)?[,)]" % (receiver_re(elem_name, is_root), re.escape(signal)))
    return [n for n, body in fns.items() if n.startswith("setup") and rx.search(body)]


def judge_accepted(v, cat, d, r, stats):
    """Each binding of an accepted document is in exactly one place."""
    rp = {"qml": d.source}
    try:
        root = uiparse.parse(r["ui"])
    except uiparse.UiSyntaxError as e:
        v.inconc("ill-formed .ui (C09's business): %s" % e)
        return
    mapping, alarms = doccheck.match_tree(d, root)
    if alarms:
        v.inconc("tree mismatch (C11's business): %s" % alarms[0][1])
        return
    header = r.get("header") or ""
    fns = functions_of(header)
    for o in d.objects():
        elem = mapping.get(o)
        if elem is None:
            continue
        is_root = o.parent is None
        name = elem.attrs.get("name")
        props = uiparse.properties_of(elem, "property")
        cls = getattr(o, "orig_cls", o.cls)
        for b in o.bindings:
            members = b.members if isinstance(b, Group) else [b]
            group_dynamic = isinstance(b, Group) and any(m.vkind == "dynamic" for m in members)
            for m in members:
                stats["bindings"] += 1
                key = (m.vkind, m.surface, "group" if isinstance(b, Group) else "attached" if m.attached else "plain")
                stats["kinds"][key] = stats["kinds"].get(key, 0) + 1
                where = "%s of %s (%s)" % (".".join(m.path), o.name_hint(), cls)
                if m.vkind == "callback":
                    places = callback_places(fns, name, is_root, m.signal)
                    handlers = [n for n in places if ("on" + n[len("setup"):]) in fns]
                    if len(handlers) != 1:
                        v.violation("callback-places", "signal handler %s is connected in %d setup functions (expected exactly one)" % (where, len(handlers)),
                                    dict(rp, header=header, binding=where))
                    continue
                if m.attached or m.surface in ("pseudo", "layoutattr"):
                    if m.vkind == "const":
                        st, exp, got = doccheck.surface_of(m, mapping)
                        if st == "missing":
                            v.violation("const-in-neither", "constant binding %s is missing from the .ui (and attached/pseudo bindings have no header form)" % where,
                                        dict(rp, ui=r["ui"], binding=where, expected=exp))
                    continue
                pinfo = cat.prop(cls if cls in cat.by else "QWidget", m.path[0])
                setter = pinfo.get("write") if pinfo else None
                if not setter:
                    continue
                places = header_places(header, fns, name, is_root, setter, m.path[0])
                in_ui = m.path[0] in props
                if isinstance(b, Group):
                    ge = props.get(m.path[0])
                    st, exp, got = doccheck.surface_of(m, mapping) if m.vkind == "const" else ("n/a", None, None)
                    if m.vkind == "dynamic":
                        if len(places) != 1:
                            v.violation("dynamic-places", "dynamic member binding %s: property written by %d update functions (expected one)" % (where, len(places)),
                                        dict(rp, header=header, binding=where))
                    elif st == "missing":
                        # constant member: must be in the .ui, or (when the group has a dynamic member) in the header
                        msetter = "set" + catalog.cap(m.path[1])
                        in_header = group_dynamic and re.search(r"\.%s\(" % re.escape(msetter), header)
                        if not in_header:
                            v.violation("const-in-neither", "constant member binding %s is in neither output" % where,
                                        dict(rp, ui=r["ui"], header=header, binding=where))
                    if m.vkind == "const" and not group_dynamic and places:
                        v.violation("const-in-both", "constant member binding %s also has update code although the group has no dynamic member" % where,
                                    dict(rp, header=header, binding=where))
                    continue
                if m.vkind == "const":
                    st, exp, got = doccheck.surface_of(m, mapping)
                    if st == "missing" or (st == "n/a" and not in_ui):
                        if not places:
                            v.violation("const-in-neither", "constant binding %s is in neither the .ui nor the header" % where,
                                        dict(rp, ui=r["ui"], header=header, binding=where))
                    elif places:
                        v.violation("const-in-both", "constant binding %s is embedded in the .ui and also written by %s" % (where, places),
                                    dict(rp, ui=r["ui"], header=header, binding=where))
                elif m.vkind == "dynamic":
                    if len(places) != 1:
                        v.violation("dynamic-places", "dynamic binding %s is written by %d update functions (expected exactly one)" % (where, len(places)),
                                    dict(rp, ui=r["ui"], header=header, binding=where))
                    if in_ui:
                        v.violation("dynamic-in-both", "dynamic binding %s is also embedded as a value in the .ui" % where,
                                    dict(rp, ui=r["ui"], header=header, binding=where))


def plant_extra(rng, doc, kind):
    objs = [o for o in doc.objects() if o.kind in ("widget", "menu") and o.cls not in ("QMenu",)]
    if kind == "dynamic-on-spacer":
        objs = [o for o in doc.objects() if o.kind == "spacer"]
    if not objs:
        return None
    ids = getattr(doc, "sources", None) or {"INT": [], "STR": [], "BOOL": []}
    any_ids = [o.id for o in doc.objects() if o.id]
    cands = list(EXTRA_FAULTS[kind])
    rng.shuffle(cands)
    for (pname, src) in cands:
        ok = True
        for ph in ("INT", "STR", "BOOL"):
            if "%" + ph + "%" in src:
                if not ids[ph]:
                    ok = False
                    break
                src = src.replace("%" + ph + "%", rng.choice(ids[ph]))
        if "%ID%" in src:
            if not any_ids:
                ok = False
            else:
                src = src.replace("%ID%", rng.choice(any_ids))
        if not ok:
            continue
        head = pname.split(".")[0]
        free = [o for o in objs if not gen_doc._has_binding(o, head)
                and not any(getattr(x, "signal", None) and x.path[0] == pname for x in o.bindings if isinstance(x, Binding))]
        if not free:
            continue
        o = rng.choice(free)
        b = Binding(tuple(pname.split(".")), src, "fault")
        b.owner, b.surface = o, "fault"
        o.bindings.insert(rng.randrange(len(o.bindings) + 1), b)
        doc.print(None)
        return gen_doc.Fault(kind, o, b)
    return None


ATTACHED_NAMES = ("rowStretch", "columnStretch", "rowMinimumHeight", "columnMinimumWidth", "row", "column", "rowSpan", "columnSpan")


def attached_effect_docs(rng, n):
    """An attached QLayout.* binding with a distinctive value on a child of each layout class: whatever the combination, it is
    either refused with an error or the value shows up on the parent <layout> / the child's <item>."""
    out = []
    for k in range(n):
        lay = rng.choice(("QFormLayout", "QVBoxLayout", "QHBoxLayout", "QGridLayout"))
        name = rng.choice(ATTACHED_NAMES)
        val = rng.choice((37, 41, 53))
        kids = ["QLabel { text: \"a\" }", "QLineEdit { QLayout.%s: %d }" % (name, val), "QLabel { text: \"b\" }"]
        if rng.random() < 0.5:
            kids.reverse()
        out.append(("import qmluic.QtWidgets\nQWidget {\n    %s {\n        %s\n    }\n}\n" % (lay, "\n        ".join(kids)), lay, name, val))
    return out


def judge_attached_effect(v, rng, n):
    cases = attached_effect_docs(rng, n)
    out = common.translate([{"id": "t%d" % i, "source": c[0], "modes": ["generate"], "want": ["ui"]} for i, c in enumerate(cases)], tag="c04t")
    seen = {}
    for i, (qml, lay, name, val) in enumerate(cases):
        rs = out.results.get("t%d" % i)
        if not rs or rs[0].get("panic"):
            continue
        r = rs[0]
        key = (lay, name, "accepted" if doccheck.accepted(r) else "refused")
        seen[key] = seen.get(key, 0) + 1
        if not doccheck.accepted(r):
            continue
        root = uiparse.parse(r["ui"])
        le = next(x for x in root.walk() if x.tag == "layout")
        edit = next(x for x in root.walk() if x.tag == "widget" and x.attrs.get("class") == "QLineEdit")
        item = edit.parent if edit.parent is not None and edit.parent.tag == "item" else None
        hay = list(le.attrs.values()) + (list(item.attrs.values()) if item is not None else [])
        if not any(str(val) in re.split(r"[,\s]+", h) for h in hay):
            v.violation("attached-in-neither", "QLayout.%s: %d on a child of a %s is accepted, but the value appears neither on the <layout> "
                        "nor on the child's <item> (%r)" % (name, val, lay, hay), {"qml": qml, "ui": r["ui"]})
    return seen


def fault_spans(doc, f):
    """Spans a diagnostic for this fault may lie in: the planted binding, and for duplicates its twin(s)."""
    spans = [f.binding.span]
    if f.kind.startswith("duplicate"):
        for x in f.obj.bindings:
            for m in (x.members if isinstance(x, Group) else [x]):
                if m is not f.binding and m.path == f.binding.path and m.attached == f.binding.attached:
                    spans.append(m.span)
            if isinstance(x, Group) and x.name == f.binding.path[0] and x.notation == "grouped":
                spans.append(x.span)
    return spans


def snapshot(paths):
    out = {}
    for p in paths:
        if os.path.exists(p):
            st = os.stat(p)
            out[p] = (st.st_ino, st.st_mtime_ns, hashlib.sha256(open(p, "rb").read()).hexdigest())
        else:
            out[p] = None
    return out


def cli_case(args):
    """One project: some fine sources, one broken; all orders of interest; stale outputs present or not."""
    k, wd, fine_srcs, broken_src, stale = args
    base = os.path.join(wd, "cli%d" % k)
    shutil.rmtree(base, ignore_errors=True)
    os.makedirs(base)
    names = []
    for i, s in enumerate(fine_srcs):
        n = "Fine%d" % i
        open(os.path.join(base, n + ".qml"), "w").write(s)
        names.append(n)
    open(os.path.join(base, "Broken.qml"), "w").write(broken_src)
    outs_b = [os.path.join(base, "broken.ui"), os.path.join(base, "uisupport_broken.h")]
    results = []
    orders = [["Broken"], ["Broken"] + names, names + ["Broken"]]
    if len(names) > 1:
        orders.append(names[:1] + ["Broken"] + names[1:])
    for order in orders:
        for p in outs_b:
            if os.path.exists(p):
                os.unlink(p)
        if stale:
            for p in outs_b:
                open(p, "w").write("stale output of an earlier revision\n")
                os.utime(p, (1000000000, 1000000000))
        before = snapshot(outs_b)
        cmd = [common.CLI, "generate-ui", "--foreign-types", common.METATYPES, "--foreign-types", common.VF_TYPES] + [n + ".qml" for n in order]
        try:
            p = subprocess.run(cmd, cwd=base, capture_output=True, env=ENV, timeout=120)
            st, err = p.returncode, p.stderr.decode("utf-8", "replace")
        except subprocess.TimeoutExpired:
            st, err = None, ""
        after = snapshot(outs_b)
        results.append((order, st, err, before, after))
    shutil.rmtree(base, ignore_errors=True)
    return k, results


ROLES = ["window", "windowText", "base", "text", "button", "buttonText", "highlight", "link", "mid", "toolTipBase"]
GROUPS = ["active", "inactive", "disabled"]


def split_group_docs(rng, n):
    """Grouped values written in several pieces and mixed notations, at nesting depth 1 and 2: every member written anywhere
    must surface.  -> [(qml, [("palette", group, role, (r, g, b))], [("font", member, text)])]"""
    out = []
    for k in range(n):
        want_pal, want_font, lines = [], [], []
        cells = rng.sample([(g, r) for g in GROUPS for r in ROLES], rng.randint(2, 7))
        pieces = []
        i = 0
        while i < len(cells):
            take = cells[i:i + rng.randint(1, 3)]
            i += len(take)
            pieces.append(take)
        n_col = 0
        for take in pieces:
            cols = []
            for (g, r) in take:
                n_col += 1
                rgb = (n_col, (7 * n_col + k) % 256, (13 * n_col + 2 * k) % 256)
                cols.append(((g, r), rgb, "\"#%02x%02x%02x\"" % rgb))
                want_pal.append((g, r, rgb))
            form = rng.choice(("dotted", "outer-group", "nested-group", "mid-dotted"))
            if form == "dotted":
                lines += ["    palette.%s.%s: %s" % (g, r, c) for (g, r), _, c in cols]
            elif form == "mid-dotted":
                lines.append("    palette { %s }" % "; ".join("%s.%s: %s" % (g, r, c) for (g, r), _, c in cols))
            elif form == "outer-group":
                byg = {}
                for (g, r), _, c in cols:
                    byg.setdefault(g, []).append("%s: %s" % (r, c))
                lines += ["    palette.%s { %s }" % (g, "; ".join(ms)) for g, ms in byg.items()]
            else:
                byg = {}
                for (g, r), _, c in cols:
                    byg.setdefault(g, []).append("%s: %s" % (r, c))
                lines.append("    palette { %s }" % " ".join("%s { %s }" % (g, "; ".join(ms)) for g, ms in byg.items()))
        fm = rng.sample([("bold", "true", "true"), ("italic", "true", "true"), ("pointSize", "9", "9"), ("family", "\"Mono\"", "Mono"),
                         ("underline", "false", "false"), ("weight", "63", "63")], rng.randint(2, 4))
        cut = rng.randint(1, len(fm) - 1)
        for part in (fm[:cut], fm[cut:]):
            if rng.random() < 0.5:
                lines.append("    font { %s }" % "; ".join("%s: %s" % (m, sv) for m, sv, _ in part))
            else:
                lines += ["    font.%s: %s" % (m, sv) for m, sv, _ in part]
        want_font = [(m, t) for m, _, t in fm]
        rng.shuffle(lines)
        out.append(("import qmluic.QtWidgets\nQWidget {\n%s\n}\n" % "\n".join(lines), want_pal, want_font))
    return out


def judge_split_groups(v, rng, n):
    cases = split_group_docs(rng, n)
    out = common.translate([{"id": "g%d" % i, "source": c[0], "modes": ["generate"], "want": ["ui"]} for i, c in enumerate(cases)], tag="c04g")
    n_ok = n_rej = 0
    for i, (qml, want_pal, want_font) in enumerate(cases):
        rs = out.results.get("g%d" % i)
        if not rs or rs[0].get("panic"):
            v.inconc("no result for a split-group document")
            continue
        r = rs[0]
        if not doccheck.accepted(r):
            n_rej += 1
            continue
        root = uiparse.parse(r["ui"])
        w = root.find("widget")
        props = uiparse.properties_of(w)
        rp = {"qml": qml, "ui": r["ui"]}
        pal = props.get("palette")
        pal = pal.children[0] if pal is not None and pal.children else None
        bad = None
        for (g, role, rgb) in want_pal:
            ge = pal.find(g) if pal is not None else None
            cr = next((c for c in (ge.children if ge is not None else []) if c.tag == "colorrole"
                       and c.attrs.get("role", "").lower() == role.lower()), None)
            col = next((x for x in cr.walk() if x.tag == "color"), None) if cr is not None else None
            got = tuple(int(col.find(t).text) for t in ("red", "green", "blue")) if col is not None else None
            if got != rgb:
                bad = "palette.%s.%s is %r in the .ui, written as %r" % (g, role, got, rgb)
                break
        f = props.get("font")
        f = f.children[0] if f is not None and f.children else None
        for (m, t) in want_font:
            if bad:
                break
            e = f.find(m.lower()) if f is not None else None
            if e is None or e.text != t:
                bad = "font.%s is %r in the .ui, written as %r" % (m, e.text if e is not None else None, t)
        if bad:
            v.violation("const-in-neither", "grouped value written in several pieces: %s" % bad, rp)
        else:
            n_ok += 1
    if n_rej > n // 2:
        v.inconc("%d of %d split-group documents rejected" % (n_rej, n))
    return n_ok, n_rej


def run(tier, seed, replay=None):
    v = common.Verdict("C04", tier, seed)
    rng = common.rng_for(seed, "C04", tier)
    cat = catalog.load()
    n_docs = 600 if tier == "quick" else 1500
    stats = {"bindings": 0, "kinds": {}}
    samples = []

    # ---------------------------------------------------------------- part 1: accepted documents
    docs = [make_doc(rng, i)[0] for i in range(n_docs)]
    res, out = doccheck.translate_docs(docs, modes=("generate",), want=("ui", "header"), tag="c04a")
    accepted = []
    n_rej = 0
    rej_msgs = {}
    for d, r in zip(docs, res):
        if r is None:
            v.inconc("no result")
            continue
        g = r["generate"][0]
        if g.get("panic"):
            v.inconc("panic (C07's business): %s" % g["panic"][:100])
            continue
        if not doccheck.accepted(g):
            n_rej += 1
            for x in g.get("diagnostics", []):
                if x["kind"] == "error":
                    rej_msgs[x["message"][:60]] = rej_msgs.get(x["message"][:60], 0) + 1
            continue
        accepted.append((d, g))
        judge_accepted(v, cat, d, g, stats)
    if n_rej > 0.3 * len(docs):
        v.inconc("generator: %d of %d documents rejected: %r" % (n_rej, len(docs), rej_msgs))

    n_split_ok, n_split_rej = judge_split_groups(v, rng, 40 if tier == "quick" else 600)
    attached_seen = judge_attached_effect(v, rng, 64 if tier == "quick" else 400)

    # ---------------------------------------------------------------- part 2: one planted faulty binding
    kinds = BINDING_FAULTS + list(EXTRA_FAULTS)
    faulted = []
    for i, (d, g) in enumerate(accepted):
        for rep in range(2 if tier == "quick" else 3):
            f = None
            for attempt in range(4):
                kind = kinds[(i * 3 + rep + attempt * 7) % len(kinds)] if rng.random() < 0.7 else rng.choice(kinds)
                d2 = copy.deepcopy(d)
                f = gen_doc.plant_fault(rng, d2, kind) if kind in BINDING_FAULTS else plant_extra(rng, d2, kind)
                if f is not None and f.binding is not None:
                    break
            if f is None or f.binding is None:
                continue
            d2.fault = f
            faulted.append(d2)
    res2, _ = doccheck.translate_docs(faulted, modes=("generate",), want=(), tag="c04f")
    fault_seen = {}
    cli_pool = []
    for d2, r in zip(faulted, res2):
        if r is None:
            v.inconc("no result for a faulted document")
            continue
        g = r["generate"][0]
        f = d2.fault
        rp = {"qml": d2.source, "fault": f.kind, "binding": "%s: %s" % (".".join(f.binding.path), f.binding.src),
              "binding_span": f.binding.span}
        if g.get("panic"):
            v.inconc("panic (C07's business): %s" % g["panic"][:100])
            continue
        if g.get("has_syntax_error"):
            # the planted text was not even syntactically a binding; then the syntax error must be reported
            fault_seen[(f.kind, "syntax-error")] = fault_seen.get((f.kind, "syntax-error"), 0) + 1
            continue
        errors = [x for x in g.get("diagnostics", []) if x["kind"] == "error"]
        spans = fault_spans(d2, f)
        inside = [x for x in errors if any(s[0] <= x["start"] and x["end"] <= s[1] for s in spans)]
        fault_seen[(f.kind, "diagnosed" if inside else "not")] = fault_seen.get((f.kind, "diagnosed" if inside else "not"), 0) + 1
        if doccheck.accepted(g):
            v.violation("fault-accepted:" + f.kind, "document with a planted %s binding (%s) is accepted without error"
                        % (f.kind, rp["binding"]), rp)
            continue
        if not inside:
            v.violation("diagnostic-range:" + f.kind, "planted %s binding %s at bytes %r: no error diagnostic lies within it; errors: %r"
                        % (f.kind, rp["binding"], spans, [(x["start"], x["end"], x["message"]) for x in errors][:4]), rp)
            continue
        if len(cli_pool) < (24 if tier == "quick" else 200):
            cli_pool.append(d2)
        if len(samples) < 3 and f.kind not in [s.get("fault") for s in samples]:
            samples.append({"fault": f.kind, "binding": rp["binding"], "binding_span": spans[0],
                            "error_diagnostics": [(x["start"], x["end"], x["message"]) for x in inside][:2]})

    # ---------------------------------------------------------------- part 3: the CLI writes nothing for a broken source
    wd = common.workdir("c04")
    fine = [d.source for d, _ in accepted[:40]] or ["import qmluic.QtWidgets\nQWidget {}\n"]
    jobs = []
    for k, d2 in enumerate(cli_pool):
        nf = rng.choice((1, 1, 2, 3))
        jobs.append((k, wd, [rng.choice(fine) for _ in range(nf)], d2.source, rng.random() < 0.6))
    n_cli = 0
    positions = set()
    with ThreadPoolExecutor(max_workers=common.NCPU) as ex:
        for k, results in ex.map(cli_case, jobs):
            d2 = cli_pool[k]
            for order, st, err, before, after in results:
                n_cli += 1
                pos = "only" if len(order) == 1 else "first" if order[0] == "Broken" else "last" if order[-1] == "Broken" else "middle"
                positions.add((pos, any(x is not None for x in before.values())))
                rp = {"qml": d2.source, "fault": d2.fault.kind, "order": order, "stderr": err[-800:], "stale_outputs": any(before.values())}
                if st is None:
                    v.inconc("CLI watchdog")
                    continue
                if st == 0:
                    v.violation("cli-exit-status", "generate-ui %r exits 0 although Broken.qml holds a %s binding" % (order, d2.fault.kind), rp)
                elif st != 1:
                    v.violation("cli-exit-status", "generate-ui %r ends with status %s" % (order, st), rp)
                if after != before:
                    what = [os.path.basename(p) + (" created" if before[p] is None else " modified") for p in after if after[p] != before[p]]
                    v.violation("cli-wrote-on-error", "generate-ui %r: %s although Broken.qml has an error" % (order, ", ".join(what)), rp)
    not_diag = {k[0] for k, n in fault_seen.items() if k[1] == "not"}
    distinct = len(stats["kinds"]) + len({k[0] for k in fault_seen}) + len(positions)
    # every binding of the CURRENT source is in the outputs on disk, also after edits that leave one of the two outputs unchanged
    _w = regen.HEAD + "QWidget {\n    QCheckBox { id: sel }\n    QLineEdit { id: e1 }\n    QLineEdit { id: e2 }\n%s}\n"
    n_hist = 0 if replay else regen.regenerated_equals_fresh(v, "c04hist", [
        (_w % "    QLabel { text: e1.text }\n", _w % "    QLabel { text: e1.text; enabled: sel.checked }\n"),
        (_w % "    QLabel { text: e1.text; enabled: sel.checked }\n", _w % "    QLabel { text: e1.text }\n"),
        (_w % "    QPushButton { onClicked: e1.clear() }\n", _w % "    QPushButton { onClicked: e1.clear(); onPressed: e2.clear() }\n"),
        (_w % "    QLabel { text: \"abc\" }\n", _w % "    QLabel { text: \"abd\" }\n"),
        (_w % "    QLabel { text: \"abc\"; enabled: sel.checked }\n", _w % "    QLabel { text: e1.text; enabled: true }\n"),
        (_w % "    QLabel { font.bold: sel.checked; font.pointSize: 9 }\n", _w % "    QLabel { font.bold: sel.checked; font.pointSize: 8 }\n"),
    ], "stale-output-after-edit", "bindings added, removed, edited")
    return v.finish(
        histories_on_disk=n_hist, evaluations=len(docs) + len(faulted) + n_cli, distinct_nontrivial=distinct,
        rule="generated documents mixing constant, dynamic, grouped, attached, pseudo and callback bindings; each binding of an "
             "accepted document located in the .ui (property/attribute/item of its object) and in the header (update function "
             "writing that property through that object / setup function connecting that signal): exactly one place; then one "
             "faulty binding of %d kinds planted anywhere: an error diagnostic must lie within the binding's bytes; then the real "
             "CLI on [fine.., Broken, ..fine] in several orders with and without stale outputs: non-zero exit, outputs of the "
             "broken source untouched (inode, mtime, sha256); distinct = binding (kind, surface, notation) classes + fault kinds "
             "+ (position, stale) classes observed" % len(kinds),
        samples=samples, documents=len(docs), accepted=len(accepted), rejected=n_rej, rejected_reasons=rej_msgs,
        bindings_located=stats["bindings"], binding_classes={"/".join(k): n for k, n in sorted(stats["kinds"].items())},
        attached_binding_outcomes={"%s/%s/%s" % k: n for k, n in sorted(attached_seen.items())}, split_group_documents_located=n_split_ok, split_group_documents_rejected=n_split_rej, faulted_documents=len(faulted), fault_outcomes={"%s:%s" % k: n for k, n in sorted(fault_seen.items())},
        cli_invocations=n_cli, cli_positions=sorted("%s/%s" % (p, "stale" if s else "absent") for p, s in positions), floor=10,
    )
