"""C17 — type lookups agree with the class graph and always terminate."""
import json

from .. import common

PROP_POOL = ["p0", "p1", "p2", "p3", "size", "text"]
METH_POOL = ["m0", "m1", "m2", "run", "aa", "ab", "b", "zz"]
ENUM_POOL = ["E0", "E1", "Kind"]
VAR_POOL = ["V0", "V1", "V2", "V3", "V4", "V5"]


def gen_graph(rng, gid):
    n = rng.choice((2, 3, 4, 5, 6, 8, 10, 14, 20, 30, 40)) if rng.random() < 0.7 else rng.randint(2, 12)
    names = ["C%d" % i for i in range(n)]
    style = rng.choice(("dag", "dag", "chain", "diamond", "cyclic", "cyclic", "dangling", "mixed", "mixed"))
    top_enums = []
    if rng.random() < 0.4:
        top_enums.append({"name": "TopEnum", "isClass": False, "isFlag": False, "values": ["T0", "T1"]})
    classes = []
    for i, name in enumerate(names):
        supers = []
        if style == "chain":
            if i > 0:
                supers.append((names[i - 1], "public"))
        elif style == "diamond":
            if i == 1 or i == 2:
                supers.append((names[0], "public"))
            elif i >= 3:
                supers.append((names[rng.choice((1, 2))], "public"))
                supers.append((names[rng.randrange(1, i)], "public"))
        else:
            k = rng.choice((0, 1, 1, 1, 2, 2, 3))
            for _ in range(k):
                if style == "dag" or (style in ("dangling", "mixed") and rng.random() < 0.8):
                    if i > 0:
                        supers.append((names[rng.randrange(i)], "public"))
                else:
                    supers.append((names[rng.randrange(n)], "public"))  # may form cycles / self loops
        # access specifiers, dangling names, names that are not classes
        out = []
        for (s, acc) in supers:
            r = rng.random()
            if style in ("mixed", "dag", "cyclic") and r < 0.15:
                acc = rng.choice(("private", "protected"))
            out.append({"name": s, "access": acc})
        if style in ("dangling", "mixed") and rng.random() < 0.35:
            pos = rng.randrange(len(out) + 1)
            out.insert(pos, {"name": rng.choice(("Missing%d" % rng.randrange(3), "TopEnum" if top_enums else "Missing9")),
                             "access": rng.choice(("public", "public", "private"))})
        if style == "cyclic" and rng.random() < 0.15:
            out.append({"name": name, "access": "public"})  # self loop
        props = []
        for p in PROP_POOL:
            if rng.random() < 0.18:
                props.append({"name": p, "type": rng.choice(("int", "bool", "QString", "int", "NoSuchType%d" % rng.randrange(2))), "read": p,
                              "constant": False, "designable": True, "final": False, "required": False,
                              "scriptable": True, "stored": True, "user": False})
                # the other things moc may say about a property: it stays a declared property
                if rng.random() < 0.3:
                    props[-1].update(rng.choice(({"privateClass": name + "Private"}, {"constant": True}, {"final": True}, {"designable": False},
                                                 {"scriptable": False}, {"stored": False}, {"user": True}, {"required": True}, {"revision": 2},
                                                 {"member": "m_" + p}, {"reset": "reset_" + p}, {"index": 3},
                                                 {"write": "set_" + p, "notify": p + "Changed", "bindable": "bindable_" + p})))
        meths = {"signals": [], "slots": [], "methods": []}
        for m in METH_POOL:
            if rng.random() < 0.2:
                for _ in range(rng.choice((1, 1, 2, 3))):
                    kind = rng.choice(("signals", "slots", "methods"))
                    acc = "public" if (kind == "signals" or rng.random() < 0.7) else rng.choice(("private", "protected"))
                    d = {"name": m, "access": acc, "returnType": "void"}
                    na = rng.randrange(3)
                    if na:
                        d["arguments"] = [{"type": rng.choice(("int", "bool", "QString", "int", "NoSuchArg%d" % rng.randrange(2)))} for _ in range(na)]
                    if rng.random() < 0.08:
                        d["returnType"] = "NoSuchRet"
                    meths[kind].append(d)
        enums = []
        used_vars = set()
        p_enum = rng.choice((0.15, 0.15, 0.6))     # some classes declare several enums, scoped and unscoped in any order
        for e in rng.sample(ENUM_POOL, len(ENUM_POOL)):
            if rng.random() < p_enum:
                vs = [v for v in VAR_POOL if rng.random() < 0.3 and v not in used_vars]
                used_vars.update(vs)
                enums.append({"name": e, "isClass": rng.random() < 0.3, "isFlag": False, "values": vs})
        c = {"className": name, "qualifiedClassName": name, "object": True, "superClasses": out,
             "properties": props, "enums": enums}
        c.update(meths)
        classes.append(c)
    if rng.random() < 0.3:
        rng.shuffle(classes)  # declaration order must not matter
    subjects = names + (["TopEnum"] if top_enums else []) + ["Nope"]
    # the descriptions reach the module in one extend() call or in several (one metatypes file after the other)
    return {"id": "g%d" % gid, "style": style, "classes": classes, "enums": top_enums, "subjects": subjects,
            "batches": rng.choice((1, 1, 2, 3, len(classes))), "tweak": rng.random() < 0.5,
            "property_names": PROP_POOL + ["absent"], "method_names": METH_POOL + ["absent"],
            "type_names": ENUM_POOL + ["Absent"], "variant_names": VAR_POOL + ["VX"]}


def gen_modules_graph(rng, gid):
    """Several named modules importing each other; the SAME class name may occur in several modules (distinct classes).

    Imports are not transitive (a module sees its own classes and those of the modules it imports directly). Every super-class
    name used in a module is unique among the classes visible there, so its resolution does not depend on any lookup precedence; every class declares one property with a globally unique name, which identifies its owner.
    """
    pool = ["X", "Y", "Z", "W"]
    k = rng.randint(2, 5)
    mods = []
    for i in range(k):
        imports = [j for j in range(i) if rng.random() < 0.6]
        if i > 0 and not imports:
            imports = [rng.randrange(i)]
        rng.shuffle(imports)
        if len(imports) >= 2 and rng.random() < 0.4:
            imports.append(imports[0])      # a module imported again after another one: [m1, m2, m1]
        mods.append({"i": i, "name": "m%d" % i, "imports": imports, "classes": []})
    nodes = {}     # (module index, name) -> [resolved super nodes]

    def closure(i):
        seen, q = set(), [i]
        while q:
            x = q.pop()
            if x in seen:
                continue
            seen.add(x)
            q += mods[x]["imports"]
        return seen
    for m in mods:
        i = m["i"]
        for name in rng.sample(pool, rng.randint(1, 3)):
            direct = {i} | set(m["imports"])
            clo = direct
            count = {}
            for (mi, n) in list(nodes) + [(i, name)]:
                if mi in clo:
                    count[n] = count.get(n, 0) + 1
            cands = [(mi, n) for (mi, n) in nodes if mi in direct and count.get(n) == 1 and (mi, n) != (i, name)]
            supers = rng.sample(cands, min(len(cands), rng.choice((0, 1, 1, 2)))) if cands else []
            nodes[(i, name)] = supers
            m["classes"].append({
                "className": name, "qualifiedClassName": name, "object": True,
                "superClasses": [{"name": n, "access": "public"} for (_, n) in supers],
                "properties": [{"name": "q_m%d_%s" % (i, name), "type": "int", "read": "r", "constant": False, "designable": True,
                                "final": False, "required": False, "scriptable": True, "stored": True, "user": False}],
                "enums": [], "signals": [], "slots": [], "methods": []})
    # a class defined later in a module may make an earlier super name of that module ambiguous: drop such graphs
    for (i, name), supers in nodes.items():
        clo = {i} | set(mods[i]["imports"])
        for (_, n) in supers:
            if sum(1 for (mi, nn) in nodes if mi in clo and nn == n) != 1:
                return None
    subjects = ["m%d/%s" % key for key in nodes]
    return {"id": "g%d" % gid, "style": "modules", "classes": [], "enums": [], "batches": rng.choice((1, 2, 3)),
            "modules": [{"name": m["name"], "imports": ["m%d" % j for j in m["imports"]], "classes": m["classes"]} for m in mods],
            "subjects": subjects, "property_names": ["q_m%d_%s" % key for key in nodes],
            "method_names": [], "type_names": [], "variant_names": [], "resolve_names": pool + ["Absent"],
            "nodes": {"m%d/%s" % k: ["m%d/%s" % x for x in v2] for k, v2 in nodes.items()}}


def check_modules_job(v, job, r, stats):
    """Same-named classes of different modules are different classes: reachability over the resolved edges is the oracle."""
    nodes = job["nodes"]
    subj = r["subjects"]

    def viol(sig, msg):
        v.violation(sig, "%s (graph over %d modules, %d classes): %s" % (job["id"], len(job["modules"]), len(nodes), msg), {"job": job, "result": r})

    def aos(a):
        seen, q = [], [a]
        while q:
            x = q.pop(0)
            if x not in seen:
                seen.append(x)
                q += nodes[x]
        return seen
    # a name is resolved from a module through the module's own import list and through an import stack pushed module by
    # module in the same order: the two constructions must give the same class (whatever the shadowing rule is)
    for key, verdict in sorted(r.get("resolution", {}).items()):
        stats["resolution"] = stats.get("resolution", 0) + 1
        if verdict == "differ":
            m = next(x for x in job["modules"] if x["name"] == key.split("/")[0])
            viol("import-stack-disagreement", "name %s resolves differently through the import list %r of module %s than through the same "
                 "modules imported one by one" % (key.split("/")[1], m["imports"], m["name"]))
            return
    for i, a in enumerate(subj):
        if r["kinds"][i] != "class":
            viol("subject-kind", "%s resolves as %s" % (a, r["kinds"][i]))
            return
    for i, a in enumerate(subj):
        anc = aos(a)
        for j, b in enumerate(subj):
            stats["derived"] += 1
            if r["derived"][i][j] != (b in anc):
                viol("derived-modules", "is_derived_from(%s, %s) = %r, graph says %r (ancestors of %s: %s)" % (a, b, r["derived"][i][j], b in anc, a, anc))
                return
            cb = r["common"][i][j]
            stats["common"] += 1
            both = [x for x in anc if x in aos(b)]
            if cb is not None and not is_err(cb) and cb not in [x.split("/")[1] for x in both]:
                viol("common-base", "common_base_class(%s, %s) = %s names no common ancestor-or-self (%s)" % (a, b, cb, both))
                return
            if (cb is None or is_err(cb)) and both:
                stats["common_missed"] += 1
        for key in nodes:
            pname = "q_%s_%s" % tuple(key.split("/"))
            got = r["property"][pname][i]
            stats["property"] += 1
            if key in anc:
                if got is None or is_err(got) or got["owner"] != key.split("/")[1]:
                    viol("property-missed-modules", "property %s of ancestor %s not found from %s (%r)" % (pname, key, a, got))
                    return
            elif got is not None and not is_err(got):
                viol("property-phantom", "property %s found from %s although %s is no ancestor" % (pname, a, key))
                return


class Ref:
    """Plain graph search over the JSON description (public edges only)."""

    def __init__(self, job):
        self.cls = {c["className"]: c for c in job["classes"]}
        self.pub = {n: [s["name"] for s in c["superClasses"] if s["access"] == "public"] for n, c in self.cls.items()}
        self._anc = {}

    def ancestors(self, a):
        """Strict public ancestors reachable through resolvable class names, plus flag for unresolved."""
        if a in self._anc:
            return self._anc[a]
        seen, order, unresolved = set(), [], False
        q = list(self.pub[a])
        while q:
            x = q.pop(0)
            if x not in self.cls:
                unresolved = True
                continue
            if x in seen:
                continue
            seen.add(x)
            order.append(x)
            q.extend(self.pub[x])
        self._anc[a] = (order, unresolved)
        return self._anc[a]

    def anc_or_self(self, a):
        return [a] + [x for x in self.ancestors(a)[0] if x != a]

    def declares_prop(self, c, p):
        return any(x["name"] == p for x in self.cls[c]["properties"])

    def prop_unresolvable(self, c, p):
        return any(x["name"] == p and x["type"].startswith("NoSuch") for x in self.cls[c]["properties"])

    def method_unresolvable(self, c, m):
        for kind in ("signals", "slots", "methods"):
            for x in self.cls[c][kind]:
                if x["name"] == m and x["access"] == "public" and (
                        x.get("returnType", "").startswith("NoSuch") or any(a["type"].startswith("NoSuch") for a in x.get("arguments", []))):
                    return True
        return False

    def public_methods(self, c, m):
        n = 0
        for kind in ("signals", "slots", "methods"):
            n += sum(1 for x in self.cls[c][kind] if x["name"] == m and x["access"] == "public")
        return n

    def declares_enum(self, c, e):
        return any(x["name"] == e for x in self.cls[c]["enums"])

    def enum_with_variant(self, c, v):
        for x in self.cls[c]["enums"]:
            if not x["isClass"] and v in x["values"]:
                return x["name"]
        return None


def is_err(x):
    return isinstance(x, str) and x.startswith("!")


def check_job(v, job, r, stats):
    ref = Ref(job)
    subj = r["subjects"]
    kinds = r["kinds"]
    gid = job["id"]

    def viol(sig, msg, extra=None):
        rp = {"job": job, "result": r}
        rp.update(extra or {})
        v.violation(sig, "%s (%s graph of %d classes): %s" % (gid, job["style"], len(job["classes"]), msg), rp)

    for i, s in enumerate(subj):
        want = "class" if s in ref.cls else ("enum" if s == "TopEnum" else "none")
        if kinds[i] != want:
            viol("subject-kind", "name %s resolves as %s, expected %s" % (s, kinds[i], want))
    idx = [i for i, s in enumerate(subj) if s in ref.cls and kinds[i] == "class"]
    for i in idx:
        a = subj[i]
        anc_a, unres_a = ref.ancestors(a)
        aos_a = set(ref.anc_or_self(a))
        for j in idx:
            b = subj[j]
            stats["derived"] += 1
            got = r["derived"][i][j]
            exp = b in aos_a
            if got != exp:
                sig = "derived-dangling" if unres_a or any(ref.ancestors(x)[1] for x in anc_a) else "derived"
                viol(sig, "is_derived_from(%s, %s) = %r, graph says %r" % (a, b, got, exp))
            cb = r["common"][i][j]
            stats["common"] += 1
            if cb is not None and not is_err(cb):
                if cb not in aos_a or cb not in set(ref.anc_or_self(b)):
                    viol("common-base", "common_base_class(%s, %s) = %s is not an ancestor-or-self of both" % (a, b, cb))
            elif cb is None and (aos_a & set(ref.anc_or_self(b))):
                stats["common_missed"] += 1
        chain = ref.anc_or_self(a)
        dangling_on_path = unres_a or any(ref.ancestors(x)[1] for x in anc_a)

        def lookup(kind, name, got, declares, describe, unresolvable=lambda c: False):
            stats[kind] += 1
            owners = [c for c in chain if declares(c)]
            if owners:
                if is_err(got) and any(unresolvable(c) for c in owners):
                    # a declaration whose own type cannot be resolved answers with an error; which declaration is met first
                    # among several ancestors is not prescribed, but an own declaration always is
                    if declares(a) and not unresolvable(a):
                        viol(kind + "-precedence", "%s %s from %s answers %r although the own declaration is well-typed" % (kind, name, a, got))
                    stats[kind + "_unresolvable_type"] = stats.get(kind + "_unresolvable_type", 0) + 1
                    return
                if got is None or is_err(got):
                    sig = kind + ("-dangling" if dangling_on_path else "-missed")
                    viol(sig, "%s %s not found from %s (%r) though declared by %s" % (kind, name, a, got, owners))
                    return
                o = describe(got)
                if declares(a):
                    if o != a:
                        viol(kind + "-precedence", "%s %s from %s resolved to %s, own declaration must win" % (kind, name, a, o))
                elif o not in owners:
                    viol(kind + "-owner", "%s %s from %s resolved to %s, not one of %s" % (kind, name, a, o, owners))
            else:
                if got is not None and not is_err(got):
                    viol(kind + "-phantom", "%s %s found from %s (%r) though nobody declares it" % (kind, name, a, got))

        for p in job["property_names"]:
            lookup("property", p, r["property"][p][i], lambda c: ref.declares_prop(c, p), lambda g: g["owner"],
                   lambda c: ref.prop_unresolvable(c, p))
        for m in job["method_names"]:
            got = r["method"][m][i]
            lookup("method", m, got, lambda c: ref.public_methods(c, m) > 0, lambda g: g["owner"],
                   lambda c: ref.method_unresolvable(c, m))
            if isinstance(got, dict) and got["owner"] in ref.cls:
                if got["count"] != ref.public_methods(got["owner"], m) or not got["same_owner"]:
                    viol("method-count", "method %s from %s: %r, owner declares %d public overloads"
                         % (m, a, got, ref.public_methods(got["owner"], m)))
        for e in job["type_names"]:
            lookup("type", e, r["type"][e][i], lambda c: ref.declares_enum(c, e),
                   lambda g: (g.get("enum") or g.get("other") or "").rsplit("::", 1)[0])
        for vn in job["variant_names"]:
            got = r["variant"][vn][i]
            lookup("variant", vn, got, lambda c: ref.enum_with_variant(c, vn) is not None,
                   lambda g: g["enum"].split("::")[0])
            if isinstance(got, dict):
                owner = got["enum"].split("::")[0]
                if owner in ref.cls and (ref.enum_with_variant(owner, vn) != got["enum"].split("::")[-1] or not got["lists"]):
                    viol("variant-enum", "variant %s from %s resolved to %s which does not list it" % (vn, a, got["enum"]))


def component_graphs_on_disk(v, rng, n):
    """Class graphs made of QML component files: X.qml rooted in `Y {}` derives from Y.  Directories import each other by string in
    several spellings of the same path (plain, through another directory and back, with ./ and a trailing slash), with diamonds and
    cycles across directories.  'derives from' between any two components must be reachability along the root-type edges, whatever
    spelling led to a directory."""
    import os
    wd = common.workdir("c17disk")
    jobs, truth = [], {}
    for k in range(n):
        root = os.path.join(wd, "p%d" % k)
        dirs = rng.sample(["app", "lib", "mid", "ui/forms", "ui/parts", "x y"], rng.randint(2, 5))
        names = rng.sample(["Base", "Mid", "Leaf", "Panel", "Card", "Row", "Cell", "Box", "Knob"], rng.randint(3, 8))
        home = {nm: rng.choice(dirs) for nm in names}
        sup = {}
        for i, nm in enumerate(names):
            r = rng.random()
            if i > 0 and r < 0.7:
                sup[nm] = rng.choice(names[:i])              # acyclic edge (chains, trees; diamonds come from the imports)
            elif r < 0.8 and len(names) > 1:
                sup[nm] = rng.choice([x for x in names if x != nm])   # may close a cycle
            else:
                sup[nm] = None                                # rooted in a Qt class

        def spell(frm, to):
            rel = os.path.relpath(os.path.join(root, to), os.path.join(root, frm))
            other = rng.choice([d for d in dirs if d != to] or [to])
            detour = os.path.relpath(os.path.join(root, other), os.path.join(root, frm)) + "/" + os.path.relpath(os.path.join(root, to), os.path.join(root, other))
            return rng.choice((rel, rel, "./" + rel, rel + "/", detour, detour))
        for d in dirs:
            os.makedirs(os.path.join(root, d), exist_ok=True)
        for nm in names:
            imports = set()
            if sup[nm] and home[sup[nm]] != home[nm]:
                imports.add(spell(home[nm], home[sup[nm]]))
            for _ in range(rng.choice((0, 0, 1))):
                d = rng.choice(dirs)
                if d != home[nm]:
                    imports.add(spell(home[nm], d))       # further imports: mutually importing directories
            text = "import qmluic.QtWidgets\n" + "".join('import "%s"\n' % i for i in sorted(imports)) + "%s {}\n" % (sup[nm] or rng.choice(("QFrame", "QWidget", "QLabel")))
            open(os.path.join(root, home[nm], nm + ".qml"), "w").write(text)
        mdir = rng.choice(dirs)
        main = "import qmluic.QtWidgets\n" + "".join('import "%s"\n' % spell(mdir, d) for d in dirs if d != mdir) + "QWidget {}\n"
        open(os.path.join(root, mdir, "Main0.qml"), "w").write(main)
        # ground truth: reachability along root-type edges (reflexive)
        anc = {}
        for nm in names:
            seen, cur = [nm], sup[nm]
            while cur is not None and cur not in seen:
                seen.append(cur)
                cur = sup[cur]
            anc[nm] = set(seen)
        qs = [(a, b) for a in names for b in names]
        jobs.append({"id": "p%d" % k, "source": main, "path": os.path.join(root, mdir, "Main0.qml"), "modes": [], "want": [],
                     "component_queries": [[os.path.join(root, home[a]), a, os.path.join(root, home[b]), b] for a, b in qs]})
        truth["p%d" % k] = (qs, anc, {nm: (home[nm], sup[nm]) for nm in names}, root)
    out = common.translate(jobs, tag="c17disk")
    n_q = 0
    for jid, (qs, anc, desc, root) in truth.items():
        rs = out.results.get(jid)
        if not rs:
            v.inconc("no result for component project %s" % jid)
            continue
        r = rs[0]
        files = {}
        for dp, _, fns in os.walk(root):
            for fn in fns:
                files[os.path.relpath(os.path.join(dp, fn), root)] = open(os.path.join(dp, fn)).read()
        if r.get("panic") or r.get("populate_error"):
            v.violation("components:not-loaded", "component project is not loaded: %s" % (r.get("panic") or r.get("populate_error")), {"files": files})
            continue
        for (a, b), ans in zip(qs, r.get("component_answers", [])):
            n_q += 1
            exp = b in anc[a]
            if ans.get("derived") is not exp:
                v.violation("components:derived", "%s (%s/) derives from %s (%s/): %r, the files say %r" % (
                    a, desc[a][0], b, desc[b][0], ans.get("derived", ans.get("error")), exp), {"files": files, "components": {k2: list(v2) for k2, v2 in desc.items()}})
                break
    for jid in out.cpu_violations:
        v.violation("components:cpu-budget", "loading / querying a component project did not finish within the CPU budget", {"project": jid})
    return n_q


def run(tier, seed, replay=None):
    v = common.Verdict("C17", tier, seed)
    rng = common.rng_for(seed, "C17", tier)
    n = 1000 if tier == "quick" else 10000
    if replay:
        jobs = [json.load(open(replay))["job"]]
    else:
        jobs = []
        for i in range(n):
            j = gen_modules_graph(rng, i) if i % 4 == 3 else None
            jobs.append(j or gen_graph(rng, i))
    out = common.run_harness("typequery", jobs, tag="c17")
    stats = {k: 0 for k in ("derived", "common", "common_missed", "property", "method", "type", "variant")}
    shapes = set()
    max_cpu = 0.0
    queries = 0
    samples = []
    styles = {}
    for job in jobs:
        rs = out.results.get(job["id"])
        if not rs:
            if job["id"] not in out.cpu_violations:
                v.inconc("no result for %s" % job["id"])
            continue
        r = rs[0]
        if r.get("panic"):
            v.violation("panic", "%s: panic %s" % (job["id"], r["panic"]), {"job": job, "result": r})
            continue
        styles[job["style"]] = styles.get(job["style"], 0) + 1
        max_cpu = max(max_cpu, r["max_query_cpu_ms"])
        queries += r["queries"]
        if r["max_query_cpu_ms"] > common.CPU_BUDGET_S * 1000:
            v.violation("cpu", "%s: a query took %.0f ms CPU" % (job["id"], r["max_query_cpu_ms"]), {"job": job})
        if job["style"] == "modules":
            check_modules_job(v, job, r, stats)
            names = [k.split("/")[1] for k in job["nodes"]]
            if len(names) != len(set(names)):
                stats["graphs_with_same_named_classes"] = stats.get("graphs_with_same_named_classes", 0) + 1
            shapes.add(common.shash(sorted(job["nodes"].items())))
            continue
        check_job(v, job, r, stats)
        edges = tuple(sorted((c["className"], tuple((s["name"], s["access"]) for s in c["superClasses"]))
                             for c in job["classes"]))
        if len(job["classes"]) >= 3 and any(len(e[1]) for e in edges):
            shapes.add(common.shash(edges))
        if len(samples) < 4 and job["style"] in ("cyclic", "dangling", "diamond", "mixed") and len(job["classes"]) <= 6 \
                and job["style"] not in [s["style"] for s in samples]:
            samples.append({"style": job["style"],
                            "edges": {c["className"]: ["%s(%s)" % (s["name"], s["access"]) for s in c["superClasses"]]
                                      for c in job["classes"]},
                            "derived_matrix": r["derived"], "queries": r["queries"]})
    for jid in set(out.cpu_violations):
        job = next(j for j in jobs if j["id"] == jid)
        v.violation("cpu", "%s: queries did not finish within %.0f s CPU" % (jid, common.CPU_BUDGET_S), {"job": job})
    for jid, why in out.inconclusive:
        v.inconc("%s: %s" % (jid, why))
    v.assumptions = ["reference: breadth-first search over public super-class edges of the generated JSON description",
                     "termination restated as bounded progress: every query within %.0f s CPU (observed max %.2f ms)"
                     % (common.CPU_BUDGET_S, max_cpu)]
    n_disk = 0 if replay else component_graphs_on_disk(v, rng, 40 if tier == "quick" else 600)
    return v.finish(
        component_file_queries=n_disk, evaluations=queries + n_disk, distinct_nontrivial=len(shapes),
        rule="random class graphs (chains, DAGs with multiple inheritance, diamonds, private edges, self loops, cycles, "
             "dangling / non-class super names); all subject pairs and all pool names queried; distinct = distinct edge "
             "relation with >= 3 classes and >= 1 edge",
        samples=samples, graphs=len(jobs), graph_styles=styles, queries_by_kind=stats,
        graphs_by_extend_batches={str(k): sum(1 for j in jobs if min(j.get("batches", 1), max(1, len(j["classes"]) or 3)) == k)
                                  for k in sorted({min(j.get("batches", 1), max(1, len(j["classes"]) or 3)) for j in jobs})},
        max_query_cpu_ms=round(max_cpu, 3), cpu_budget_ms=common.CPU_BUDGET_S * 1000, floor=20,
    )
