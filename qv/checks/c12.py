"""C12 — layout items land in the documented cells; per-row/column settings follow."""
import json

from .. import regen, common, uiparse

MAXI = 65535
ALIGN = ["Qt.AlignLeft", "Qt.AlignRight", "Qt.AlignHCenter", "Qt.AlignTop", "Qt.AlignBottom", "Qt.AlignVCenter", "Qt.AlignCenter"]
CHILD = ["QLabel", "QPushButton", "QLineEdit", "QCheckBox", "QSpacerItem", "QVBoxLayout", "QHBoxLayout", "QWidget", "VfWidget"]


def flow_model(kind, flow, columns, rows, children):
    """Reference of the flow rule.  children: dicts with optional row/column.

    -> (cells [(row, col)], error or None).  `kind`: grid | form.
    """
    if kind == "form":
        flow, columns = "ltr", 2
    r = c = 0
    cells = []
    for ch in children:
        er, ec = ch.get("row"), ch.get("column")
        for name, val, lim in (("row", er, MAXI if flow == "ltr" else rows - 1),
                               ("column", ec, columns - 1 if flow == "ltr" else MAXI)):
            if val is not None and (val < 0 or val > lim):
                return cells, "%s out of range" % name
        if er is not None and ec is not None:
            r, c = er, ec
        elif er is not None:
            r = er
            if flow == "ltr":
                c = 0
        elif ec is not None:
            c = ec
            if flow == "ttb":
                r = 0
        cells.append((r, c))
        if flow == "ltr":
            c = (c + 1) % columns
            if c == 0:
                r += 1
        else:
            r = (r + 1) % rows
            if r == 0:
                c += 1
    return cells, None


DUPLICABLE = ("row", "column", "rowStretch", "columnStretch", "rowMinimumHeight", "columnMinimumWidth")


def gen_case(rng, i):
    kind = rng.choice(("grid", "grid", "grid", "form", "vbox", "hbox"))
    n = rng.randint(1, 14)
    flow = rng.choice(("ltr", "ltr", "ttb")) if kind == "grid" else "ltr"
    columns = rng.choice((None, 1, 2, 3, 4, 5, 6)) if flow == "ltr" else None
    rows = rng.choice((1, 2, 3, 4, 5, 6)) if flow == "ttb" else None
    if flow == "ttb" and rng.random() < 0.1:
        rows = None
    ecols = columns if columns else 65536
    erows = rows if rows else 65536
    if kind == "form":
        ecols = 2
    reject = (i % 6 == 5)
    sm = rng.random()
    # per case: every stretch factor 1 (qmluic's own gap filler, while Qt's default is 0), every factor 0, or arbitrary
    stretch = (lambda: 1) if sm < 0.15 else (lambda: 0) if sm < 0.2 else (lambda: rng.randint(0, 9))
    children = []
    for k in range(n):
        ch = {"cls": rng.choice(CHILD)}
        if kind in ("grid", "form"):
            r = rng.random()
            if r < 0.25:
                ch["row"] = rng.randint(0, 9)
            elif r < 0.45:
                ch["column"] = rng.randint(0, max(0, min(ecols, 7) - 1)) if flow == "ltr" else rng.randint(0, 9)
            elif r < 0.65:
                ch["row"] = rng.randint(0, 9) if flow == "ltr" else rng.randint(0, max(0, min(erows, 7) - 1))
                ch["column"] = rng.randint(0, max(0, min(ecols, 7) - 1)) if flow == "ltr" else rng.randint(0, 9)
            if flow == "ttb" and "row" in ch:
                ch["row"] = min(ch["row"], erows - 1)
            if rng.random() < 0.2:
                ch["rowSpan"] = rng.choice((1, 2, 3, -1))        # -1: Qt's "extend to the bottom edge"
            if rng.random() < 0.2:
                ch["columnSpan"] = rng.choice((1, 2, 3, -1))     # -1: "extend to the right edge"
        if rng.random() < 0.2:
            k2 = rng.choice((1, 1, 2))
            ch["alignment"] = [rng.choice(ALIGN) for _ in range(k2)]
        children.append(ch)
    case = {"kind": kind, "flow": flow, "columns": columns, "rows": rows, "children": children, "reject": None}
    if kind == "grid" and flow == "ltr" and i % 3 == 0:
        case["explicit_flow"] = True
    if kind == "grid" and i % 4 == 1:
        case["other_count"] = ("rows" if flow == "ltr" else "columns", 10 + (i // 4) % 7)
    if kind in ("grid", "form"):
        cells, err = flow_model(kind, flow, ecols, erows, children)
        assert err is None, err
        # per-row / per-column settings: consistent per row, differing between rows that share a column
        rowvals = {}
        colvals = {}
        if kind == "grid":
            for ch, (r, c) in zip(children, cells):
                if rng.random() < 0.35:
                    ch["rowStretch"] = rowvals.setdefault(("rs", r), stretch())
                if rng.random() < 0.35:
                    ch["columnStretch"] = colvals.setdefault(("cs", c), stretch())
                if rng.random() < 0.35:
                    ch["rowMinimumHeight"] = rowvals.setdefault(("rm", r), 10 * (r + 1) + rng.randint(0, 3))
                if rng.random() < 0.35:
                    ch["columnMinimumWidth"] = colvals.setdefault(("cm", c), 100 * (c + 1) + rng.randint(0, 3))
    else:
        key = "rowStretch" if kind == "vbox" else "columnStretch"
        for ch in children:
            if rng.random() < 0.4:
                ch[key] = stretch()
    if reject:
        # one clear-cut invalid value
        opts = []
        if kind in ("grid", "form"):
            opts += ["neg-row", "neg-col", "big"]
            if flow == "ltr" and ecols < 65536:
                opts += ["col-eq-count", "col-gt-count"]
            if flow == "ttb" and erows < 65536:
                opts += ["row-eq-count"]
            if kind == "grid" and len(children) >= 2:
                opts += ["conflict"]
        if kind == "grid":
            opts += ["zero-count", "neg-count", "huge-count"]
        if any(k in ch for ch in children for k in DUPLICABLE):
            opts += ["dup-attached"]
        if opts:
            what = rng.choice(opts)
            ch = rng.choice(children)
            if what == "neg-row":
                ch["row"] = -rng.randint(1, 3)
            elif what == "neg-col":
                ch["column"] = -1
            elif what == "big":
                # boundary-biased: just past the limit, around 2^31, and values that come back into range if truncated to 32 bits
                ch[rng.choice(("row", "column"))] = rng.choice((
                    65536 + rng.randint(0, 5), 2 ** 31 - 1, 2 ** 31, 2 ** 32, 2 ** 32 + rng.randint(0, 3), 2 ** 33 + 1,
                    -(2 ** 32) + rng.randint(0, 3), 2 ** 40 + 1, 2 ** 53, 2 ** 62))
                if flow == "ttb" and "row" in ch and ch["row"] > 65535:
                    pass
            elif what == "col-eq-count":
                ch["column"] = ecols
            elif what == "col-gt-count":
                ch["column"] = ecols + rng.randint(1, 3)
            elif what == "row-eq-count":
                ch["row"] = erows
            elif what == "zero-count":
                if flow == "ltr":
                    case["columns"] = 0
                else:
                    case["rows"] = 0
            elif what == "huge-count":
                # far beyond any cell index; in range again if truncated to 32 bits
                case["columns" if flow == "ltr" else "rows"] = rng.choice((2 ** 32 + 2, 2 ** 32 + 3, 2 ** 33 + 2, 2 ** 40 + 4))
            elif what == "neg-count":
                if flow == "ltr":
                    case["columns"] = -2
                else:
                    case["rows"] = -1
            elif what == "dup-attached":
                # one child states the same attachment twice with two values: whichever were taken, the other is contradicted
                ch = rng.choice([c for c in children if any(k in c for k in DUPLICABLE)])
                k = rng.choice([k for k in DUPLICABLE if k in ch])
                ch["dup"] = (k, ch[k] + rng.choice((1, 2)))
            elif what == "conflict":
                # two children of one row with different row stretch (or one column, column stretch)
                cells, _ = flow_model(kind, flow, ecols, erows, children)
                byrow = {}
                for idx, (r, c) in enumerate(cells):
                    byrow.setdefault(r, []).append(idx)
                rows2 = [v for v in byrow.values() if len(v) >= 2]
                if rows2:
                    a, b = rng.sample(rng.choice(rows2), 2)
                    children[a]["rowStretch"] = 1
                    children[b]["rowStretch"] = 2
                else:
                    what = None
            case["reject"] = what
    if not case.get("reject") and kind in ("grid", "form") and rng.random() < 0.05:
        case["spelling"] = rng.randint(1, 2)
    return case


def to_qml(case):
    lay = {"grid": "QGridLayout", "form": "QFormLayout", "vbox": "QVBoxLayout", "hbox": "QHBoxLayout"}[case["kind"]]
    out = ["import qmluic.QtWidgets", "QWidget {", "    %s {" % lay, "        id: lay"]
    if case["kind"] == "grid":
        if case["flow"] == "ttb":
            out.append("        flow: QGridLayout.TopToBottom")
        elif case.get("explicit_flow"):
            out.append("        flow: QGridLayout.LeftToRight")
        if case["columns"] is not None:
            out.append("        columns: %d" % case["columns"])
        if case["rows"] is not None:
            out.append("        rows: %d" % case["rows"])
        if case.get("other_count"):
            # the count of the direction the layout does not flow in: no part of the flow rule (the direction is `flow`, left to
            # right when absent - examples/LayoutFlow.qml); large enough not to clash with any explicit index
            out.append("        %s: %d" % case["other_count"])
    for i, ch in enumerate(case["children"]):
        out.append("        %s {" % ch["cls"])
        out.append("            id: c%d" % i)
        for n, k in enumerate(("row", "column", "rowSpan", "columnSpan", "rowStretch", "columnStretch", "rowMinimumHeight", "columnMinimumWidth")):
            if k in ch:
                # `spelling`: the attached type written as the concrete layout class for some of the bindings of a child
                owner = lay if (case.get("spelling") and (n + i + case["spelling"]) % 2 == 0) else "QLayout"
                out.append("            %s.%s: %d" % (owner, k, ch[k]))
        if "alignment" in ch:
            out.append("            QLayout.alignment: %s" % " | ".join(ch["alignment"]))
        if "dup" in ch:
            out.append("            QLayout.%s: %d" % ch["dup"])
        out.append("        }")
    out += ["    }", "}", ""]
    return "\n".join(out)


def expected_arrays(case, cells, row_min_at_column=False):
    """-> dict attr -> {index: value} for the specified entries."""
    exp = {"rowstretch": {}, "columnstretch": {}, "rowminimumheight": {}, "columnminimumwidth": {}, "stretch": {}}
    for i, (ch, cell) in enumerate(zip(case["children"], cells)):
        if case["kind"] == "grid":
            r, c = cell
            if "rowStretch" in ch:
                exp["rowstretch"][r] = ch["rowStretch"]
            if "columnStretch" in ch:
                exp["columnstretch"][c] = ch["columnStretch"]
            if "rowMinimumHeight" in ch:
                exp["rowminimumheight"][c if row_min_at_column else r] = ch["rowMinimumHeight"]
            if "columnMinimumWidth" in ch:
                exp["columnminimumwidth"][c] = ch["columnMinimumWidth"]
        elif case["kind"] == "vbox" and "rowStretch" in ch:
            exp["stretch"][i] = ch["rowStretch"]
        elif case["kind"] == "hbox" and "columnStretch" in ch:
            exp["stretch"][i] = ch["columnStretch"]
    return exp


def arrays_match(layout_elem, exp):
    """Specified entries must sit at their index; absent attribute only if nothing was specified."""
    bad = []
    for attr, want in exp.items():
        got = layout_elem.attrs.get(attr)
        if not want:
            if got is not None:
                bad.append((attr, got, want))
            continue
        if got is None:
            bad.append((attr, None, want))
            continue
        try:
            arr = [int(x) for x in got.split(",")]
        except ValueError:
            bad.append((attr, got, want))
            continue
        if len(arr) != max(want) + 1 or any(arr[i] != v for i, v in want.items()):
            bad.append((attr, got, want))
    return bad


def predicts_rowmin_at_column(case, cells):
    """Would the listed defect (minimum height stored at the column index) accept or reject, and with what array?"""
    store = {}
    for ch, (r, c) in zip(case["children"], cells):
        if "rowMinimumHeight" in ch:
            if c in store and store[c] != ch["rowMinimumHeight"]:
                return "reject", None
            store[c] = ch["rowMinimumHeight"]
    return "accept", store


def run(tier, seed, replay=None):
    v = common.Verdict("C12", tier, seed)
    rng = common.rng_for(seed, "C12", tier)
    n = 4000 if tier == "quick" else 40000
    cases = [gen_case(rng, i) for i in range(n)]
    if replay:
        cases = [json.load(open(replay))["case"]]
    jobs = [{"id": "d%d" % i, "source": to_qml(c), "modes": ["generate"], "want": ["ui"]} for i, c in enumerate(cases)]
    out = common.translate(jobs, tag="c12")
    distinct = set()
    samples = []
    n_items = n_settings = n_rejected_ok = n_acc = 0
    kinds = {}
    for i, case in enumerate(cases):
        rs = out.results.get("d%d" % i)
        if not rs:
            v.inconc("no result")
            continue
        g = rs[0]
        qml = jobs[i]["source"]
        rp = {"case": case, "qml": qml, "ui": g.get("ui"), "diagnostics": g.get("diagnostics")}
        if g.get("panic"):
            v.violation("panic", "panic on layout document: %s" % g["panic"], rp)
            continue
        ok = g.get("built") and not g.get("has_error") and not g.get("has_syntax_error")
        ecols = case["columns"] if case["columns"] else 65536
        erows = case["rows"] if case["rows"] else 65536
        if case["reject"]:
            if ok:
                v.violation("accepted-invalid:" + case["reject"], "layout with invalid value (%s) accepted" % case["reject"], rp)
            else:
                n_rejected_ok += 1
            continue
        cells = None
        if case["kind"] in ("grid", "form"):
            cells, err = flow_model(case["kind"], case["flow"], ecols, erows, case["children"])
        if not ok:
            # the listed defect also produces spurious "mismatched" rejections: match it exactly
            msgs = [d["message"] for d in g.get("diagnostics", []) if d["kind"] == "error"]
            if case["kind"] == "grid" and msgs and all(m.startswith("mismatched with the value previously set") for m in msgs) \
                    and predicts_rowmin_at_column(case, cells)[0] == "reject":
                v.violation("rowminimumheight-at-column", "consistent row minimum heights rejected as conflicting: %r" % msgs[:2], rp)
            else:
                if case.get("spelling"):
                    continue   # the derived spelling of the attached type need not be supported; if it is accepted it is judged
                v.violation("rejected-valid", "consistent layout rejected: %r" % msgs[:3], rp)
            continue
        n_acc += 1
        try:
            root = uiparse.parse(g["ui"])
        except uiparse.UiSyntaxError as e:
            v.inconc("ill-formed .ui: %s" % e)
            continue
        lay = root.find("widget").find("layout")
        items = [c for c in lay.children if c.tag == "item"]
        if len(items) != len(case["children"]):
            v.violation("item-count", "%d children, %d items" % (len(case["children"]), len(items)), rp)
            continue
        bad = False
        for k, (ch, it) in enumerate(zip(case["children"], items)):
            n_items += 1
            want = {}
            if cells is not None:
                want["row"], want["column"] = str(cells[k][0]), str(cells[k][1])
            if "rowSpan" in ch:
                want["rowspan"] = str(ch["rowSpan"])
            if "columnSpan" in ch:
                want["colspan"] = str(ch["columnSpan"])
            if "alignment" in ch:
                want["alignment"] = "|".join(a.replace(".", "::") for a in ch["alignment"])
            if dict(it.attrs) != want:
                diff = {k2: (it.attrs.get(k2), want.get(k2)) for k2 in set(it.attrs) | set(want) if it.attrs.get(k2) != want.get(k2)}
                key = sorted(diff)[0]
                v.violation("cell:" + key, "child %d (%s): item attributes %r, reference %r" % (k, ch["cls"], dict(it.attrs), want), rp)
                bad = True
                break
        if bad:
            continue
        exp = expected_arrays(case, cells or [None] * len(case["children"]))
        n_settings += sum(len(x) for x in exp.values())
        mism = arrays_match(lay, exp)
        if mism:
            sig = "array:" + mism[0][0]
            if [m[0] for m in mism] == ["rowminimumheight"]:
                alt = expected_arrays(case, cells, row_min_at_column=True)
                if not arrays_match(lay, alt):
                    sig = "rowminimumheight-at-column"
            v.violation(sig, "layout attribute %s = %r, reference entries %r (cells %r)" % (mism[0][0], mism[0][1], mism[0][2], cells), rp)
            continue
        kinds[case["kind"] + "/" + case["flow"]] = kinds.get(case["kind"] + "/" + case["flow"], 0) + 1
        if cells and len(set(cells)) >= 3 and any(r != c for r, c in cells):
            distinct.add(common.shash(case["kind"], case["flow"], case["columns"], case["rows"], cells,
                                      sorted((k2, tuple(sorted(x.items()))) for k2, x in exp.items())))
        elif case["kind"] in ("vbox", "hbox") and exp["stretch"]:
            distinct.add(common.shash(case["kind"], sorted(exp["stretch"].items())))
        if len(samples) < 3 and cells and any("row" in c or "column" in c for c in case["children"]) and 4 <= len(cells) <= 7 \
                and case["flow"] not in [s["flow"] for s in samples]:
            samples.append({"flow": case["flow"], "columns": case["columns"], "rows": case["rows"], "qml": qml[:1500],
                            "reference_cells": cells, "layout_attributes": dict(lay.attrs)})
    v.assumptions = ["reference flow model of this file (40 lines, from the property text; cursor semantics of a lone row/column as "
                     "pinned by the repository's own unit tests)",
                     "unspecified entries of the per-row/column arrays are not judged (the property does not state their value)"]
    # the cells on disk are the cells of the CURRENT source (an index edited into another one of the same length)
    _w = regen.HEAD + "QWidget {\n    QGridLayout {\n        columns: 3\n        QLabel { %s }\n        QLabel { %s }\n    }\n}\n"
    n_hist = 0 if replay else regen.regenerated_equals_fresh(v, "c12hist", [
        (_w % ("QLayout.row: 1", "QLayout.column: 2"), _w % ("QLayout.row: 2", "QLayout.column: 1")),
        (_w % ("QLayout.columnStretch: 3", "QLayout.rowStretch: 4"), _w % ("QLayout.columnStretch: 4", "QLayout.rowStretch: 3")),
        (_w % ("QLayout.rowSpan: 2", "QLayout.alignment: Qt.AlignTop"), _w % ("QLayout.rowSpan: 3", "QLayout.alignment: Qt.AlignTop")),
    ], "stale-cells-after-edit", "layout indices edited")
    return v.finish(
        histories_on_disk=n_hist, evaluations=len(cases), distinct_nontrivial=len(distinct),
        rule="grid (both flows, columns/rows 1-6 or unset), form and box layouts with 1-14 children and random optional "
             "row/column/span/alignment/stretch/minimum-size attachments (row-wise values consistent per row but different "
             "between rows sharing a column); a sixth with one invalid value; distinct = distinct (flow, counts, cell "
             "sequence, setting arrays) with >= 3 cells and rows != columns",
        samples=samples, accepted=n_acc, invalid_rejected=n_rejected_ok, items_checked=n_items, settings_checked=n_settings,
        layouts_by_kind=kinds, floor=100,
    )
