"""Histories on disk: what `qmluic generate-ui` leaves behind after a source was edited and generated again must be what a
generation of the current source into an empty directory writes (same binary, same options).

A relational oracle: nothing is assumed about the bytes themselves.  It exists because "nothing to do, the output is up to date"
shortcuts are invisible to any single translation: the stale file is a perfectly good output -- of an earlier revision.
"""
import os
import subprocess

from . import common

HEAD = "import qmluic.QtWidgets\n"


def regenerated_equals_fresh(v, tag, revisions, sig, what, name="Form", options=()):
    """revisions: [(source before, source now)].  Returns the number of histories compared.
    A violation carries both revisions and the differing file."""
    wd = common.workdir(tag)
    env = dict(os.environ, NO_COLOR="1")
    cmd = [common.CLI, "generate-ui", "--foreign-types", common.METATYPES, "--foreign-types", common.VF_TYPES] + list(options) + [name + ".qml"]
    n = 0
    for k, (before, now) in enumerate(revisions):
        hist, fresh = os.path.join(wd, "h%d" % k), os.path.join(wd, "f%d" % k)
        os.makedirs(hist)
        os.makedirs(fresh)
        src = os.path.join(hist, name + ".qml")
        open(src, "w").write(before)
        p1 = subprocess.run(cmd, cwd=hist, capture_output=True, env=env, timeout=120)
        open(src, "w").write(now)
        p2 = subprocess.run(cmd, cwd=hist, capture_output=True, env=env, timeout=120)
        open(os.path.join(fresh, name + ".qml"), "w").write(now)
        p3 = subprocess.run(cmd, cwd=fresh, capture_output=True, env=env, timeout=120)
        if p1.returncode or p3.returncode:
            v.inconc("history scenario refused: %s" % (p1.stderr + p3.stderr).decode("utf-8", "replace")[-200:])
            continue
        rp = {"qml_before": before, "qml": now, "options": list(options)}
        if p2.returncode:
            v.violation(sig, "%s: the edited source is accepted in an empty directory but refused over the outputs of the previous revision: %s"
                        % (what, p2.stderr.decode("utf-8", "replace")[-200:]), rp)
            continue
        n += 1
        for fn in sorted(os.listdir(fresh)):
            if fn.endswith(".qml"):
                continue
            a = open(os.path.join(hist, fn), "rb").read() if os.path.exists(os.path.join(hist, fn)) else None
            b = open(os.path.join(fresh, fn), "rb").read()
            if a != b:
                v.violation(sig, "%s: after the edit and a second run %s on disk is not what the current source generates into an empty "
                            "directory%s" % (what, fn, " (it is missing)" if a is None else ""),
                            dict(rp, file=fn, on_disk=(a or b"").decode("utf-8", "replace")[:6000], of_current_source=b.decode("utf-8", "replace")[:6000]))
                break
    return n
