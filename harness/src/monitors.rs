//! Online monitors over the finished IR handed out by the observation hook.
//!
//! These check structural invariants of a finished data structure at its quiescent point
//! (end of `uigen::build`).  They are written independently of the builder: no call into
//! `typeutil`, `propdep` or `finalize_completion_values`.

use qmluic::opcode::{BinaryArithOp, BinaryOp, BuiltinFunctionKind, UnaryOp};
use qmluic::tir::{CodeBody, ConstantValue, Operand, Rvalue, Statement, Terminator};
use qmluic::typemap::{Class, Enum, NamedType, PrimitiveType, TypeKind, TypeSpace as _};
use qmluic::uigen::verif_hook::{ObservedCode, ObservedKind};
use std::panic::{catch_unwind, AssertUnwindSafe};

#[derive(Default, Debug)]
pub struct BodyReport {
    pub alarms_cfg: Vec<String>,
    pub alarms_defassign: Vec<String>,
    pub alarms_dep: Vec<String>,
    pub alarms_type: Vec<String>,
    pub n_blocks: usize,
    pub n_reachable: usize,
    pub n_brcond: usize,
    pub n_stmts: usize,
    pub n_locals: usize,
    pub n_read_property: usize,
    pub n_observe: usize,
    pub n_static_deps: usize,
    pub reachable_void_return: bool,
    pub reachable_value_return: bool,
    pub reachable_unreachable_term: bool,
    pub shape: String,
}

fn term_of<'c, 'a>(code: &'c CodeBody<'a>, i: usize) -> Option<&'c Terminator<'a>> {
    // terminator() panics if the builder forgot to set it
    catch_unwind(AssertUnwindSafe(|| code.basic_blocks[i].terminator())).ok()
}

fn successors(t: &Terminator) -> Vec<usize> {
    match t {
        Terminator::Br(x) => vec![x.0],
        Terminator::BrCond(_, y, z) => vec![y.0, z.0],
        Terminator::Return(_) | Terminator::Unreachable => vec![],
    }
}

fn operand_local(a: &Operand) -> Option<usize> {
    match a {
        Operand::Local(x) => Some(x.name.0),
        _ => None,
    }
}

fn rvalue_operands<'c, 'a>(r: &'c Rvalue<'a>) -> Vec<&'c Operand<'a>> {
    match r {
        Rvalue::Copy(a)
        | Rvalue::UnaryOp(_, a)
        | Rvalue::StaticCast(_, a)
        | Rvalue::VariantCast(_, a)
        | Rvalue::ReadProperty(a, _) => vec![a],
        Rvalue::BinaryOp(_, a, b) | Rvalue::WriteProperty(a, _, b) | Rvalue::ReadSubscript(a, b) => {
            vec![a, b]
        }
        Rvalue::WriteSubscript(a, b, c) => vec![a, b, c],
        Rvalue::CallBuiltinFunction(_, xs) | Rvalue::MakeList(_, xs) => xs.iter().collect(),
        Rvalue::CallMethod(o, _, xs) => {
            let mut v = vec![o];
            v.extend(xs.iter());
            v
        }
    }
}

pub fn check_body(oc: &ObservedCode, defassign: bool) -> BodyReport {
    let code = oc.code;
    let mut rep = BodyReport {
        n_blocks: code.basic_blocks.len(),
        n_locals: code.locals.len(),
        n_static_deps: code.static_property_deps.len(),
        ..Default::default()
    };
    let n = code.basic_blocks.len();
    if n == 0 {
        rep.alarms_cfg.push("no basic block".into());
        return rep;
    }

    // ---- structure: terminators, targets, reachability
    let mut terms: Vec<Option<&Terminator>> = Vec::with_capacity(n);
    for i in 0..n {
        let t = term_of(code, i);
        if t.is_none() {
            rep.alarms_cfg.push(format!("block {i} has no terminator"));
        }
        terms.push(t);
    }
    for (i, t) in terms.iter().enumerate() {
        if let Some(t) = t {
            for s in successors(t) {
                if s >= n {
                    rep.alarms_cfg
                        .push(format!("block {i} jumps to missing block {s} (of {n})"));
                }
            }
        }
    }
    let mut reachable = vec![false; n];
    let mut stack = vec![0usize];
    while let Some(i) = stack.pop() {
        if i >= n || reachable[i] {
            continue;
        }
        reachable[i] = true;
        if let Some(t) = terms[i] {
            stack.extend(successors(t));
        }
    }
    rep.n_reachable = reachable.iter().filter(|x| **x).count();

    for i in 0..n {
        if !reachable[i] {
            continue;
        }
        rep.n_stmts += code.basic_blocks[i].statements.len();
        match terms[i] {
            Some(Terminator::Unreachable) => {
                rep.reachable_unreachable_term = true;
                rep.alarms_cfg
                    .push(format!("reachable block {i} ends in unreachable marker"));
            }
            Some(Terminator::Return(Operand::Void(_))) => rep.reachable_void_return = true,
            Some(Terminator::Return(_)) => rep.reachable_value_return = true,
            Some(Terminator::BrCond(..)) => rep.n_brcond += 1,
            _ => {}
        }
    }
    if oc.kind != ObservedKind::Callback && rep.reachable_void_return && rep.reachable_value_return {
        rep.alarms_cfg
            .push("value-returning body mixes void and value returns on reachable paths".into());
    }

    // ---- every local index used exists
    let nl = code.locals.len();
    for (i, b) in code.basic_blocks.iter().enumerate() {
        for s in &b.statements {
            let (def, ops): (Option<usize>, Vec<&Operand>) = match s {
                Statement::Assign(l, r) => (Some(l.0), rvalue_operands(r)),
                Statement::Exec(r) => (None, rvalue_operands(r)),
                Statement::ObserveProperty(_, l, _) => {
                    if l.0 >= nl {
                        rep.alarms_cfg
                            .push(format!("block {i} observes missing local {}", l.0));
                    }
                    (None, vec![])
                }
            };
            if let Some(d) = def {
                if d >= nl {
                    rep.alarms_cfg
                        .push(format!("block {i} assigns missing local {d}"));
                }
            }
            for a in ops {
                if let Some(l) = operand_local(a) {
                    if l >= nl {
                        rep.alarms_cfg
                            .push(format!("block {i} reads missing local {l}"));
                    }
                }
            }
        }
    }
    if !rep.alarms_cfg.is_empty() && rep.alarms_cfg.iter().any(|a| a.contains("missing")) {
        return rep; // further analyses would index out of bounds
    }

    // ---- definite assignment (forward, intersection at joins)
    {
        let full: Vec<bool> = vec![true; nl];
        let mut inset: Vec<Option<Vec<bool>>> = vec![None; n];
        let mut entry = vec![false; nl];
        for e in entry.iter_mut().take(code.parameter_count.min(nl)) {
            *e = true;
        }
        inset[0] = Some(entry);
        let mut work = vec![0usize];
        let transfer = |i: usize, mut cur: Vec<bool>| -> Vec<bool> {
            for s in &code.basic_blocks[i].statements {
                if let Statement::Assign(l, _) = s {
                    cur[l.0] = true;
                }
            }
            cur
        };
        while let Some(i) = work.pop() {
            let cur = inset[i].clone().unwrap();
            let out = transfer(i, cur);
            if let Some(t) = terms[i] {
                for s in successors(t) {
                    if s >= n {
                        continue;
                    }
                    let new = match &inset[s] {
                        None => out.clone(),
                        Some(old) => old.iter().zip(&out).map(|(a, b)| *a && *b).collect(),
                    };
                    if inset[s].as_ref() != Some(&new) {
                        inset[s] = Some(new);
                        work.push(s);
                    }
                }
            }
        }
        let _ = full;
        for i in 0..n {
            if !reachable[i] {
                continue;
            }
            let mut cur = match &inset[i] {
                Some(v) => v.clone(),
                None => continue,
            };
            let check = |a: &Operand, cur: &Vec<bool>, what: &str, out: &mut Vec<String>| {
                if let Some(l) = operand_local(a) {
                    if !cur[l] {
                        out.push(format!(
                            "block {i}: {what} reads local %{l} not assigned on every path"
                        ));
                    }
                }
            };
            for s in &code.basic_blocks[i].statements {
                match s {
                    Statement::Assign(l, r) => {
                        for a in rvalue_operands(r) {
                            check(a, &cur, "assignment", &mut rep.alarms_defassign);
                        }
                        cur[l.0] = true;
                    }
                    Statement::Exec(r) => {
                        for a in rvalue_operands(r) {
                            check(a, &cur, "statement", &mut rep.alarms_defassign);
                        }
                    }
                    Statement::ObserveProperty(_, l, _) => {
                        if !cur[l.0] {
                            rep.alarms_defassign.push(format!(
                                "block {i}: observe reads local %{} not assigned on every path",
                                l.0
                            ));
                        }
                    }
                }
            }
            match terms[i] {
                Some(Terminator::BrCond(a, ..)) => {
                    check(a, &cur, "branch condition", &mut rep.alarms_defassign)
                }
                Some(Terminator::Return(a)) => check(a, &cur, "return", &mut rep.alarms_defassign),
                _ => {}
            }
        }
        if !defassign {
            // user variables may legitimately be declared without initialiser: the
            // caller asked for the structural part only
            rep.alarms_defassign.clear();
        }
    }

    // ---- dependency coverage of non-constant pointer property reads
    {
        let mut observer_used = vec![0usize; code.property_observer_count];
        for i in 0..n {
            // track which local provably holds which named object inside this block
            let mut named: Vec<Option<String>> = vec![None; nl];
            // observed[(local)] = signal names observed since last assignment of local
            let mut observed: Vec<Vec<String>> = vec![vec![]; nl];
            for s in &code.basic_blocks[i].statements {
                match s {
                    Statement::ObserveProperty(h, l, sig) => {
                        rep.n_observe += 1;
                        if h.0 >= code.property_observer_count {
                            rep.alarms_dep.push(format!(
                                "block {i}: observer index {} >= observer count {}",
                                h.0, code.property_observer_count
                            ));
                        } else {
                            observer_used[h.0] += 1;
                        }
                        observed[l.0].push(sig.name().to_owned());
                    }
                    Statement::Assign(_, r) | Statement::Exec(r) => {
                        if let Rvalue::ReadProperty(obj, prop) = r {
                            let is_ptr = match obj {
                                Operand::NamedObject(_) => true,
                                Operand::Local(x) => x.ty.is_pointer(),
                                _ => false,
                            };
                            if is_ptr && !prop.is_constant() && reachable[i] {
                                rep.n_read_property += 1;
                                match prop.notify_signal_name() {
                                    None => rep.alarms_dep.push(format!(
                                        "block {i}: read of non-constant property '{}' without notify signal",
                                        prop.name()
                                    )),
                                    Some(sig) => {
                                        let static_ok = |name: &str| {
                                            code.static_property_deps
                                                .iter()
                                                .any(|(o, m)| o.0 == name && m.name() == sig)
                                        };
                                        let ok = match obj {
                                            Operand::NamedObject(x) => static_ok(&x.name.0),
                                            Operand::Local(x) => {
                                                observed[x.name.0].iter().any(|s| s == sig)
                                                    || named[x.name.0]
                                                        .as_deref()
                                                        .map(static_ok)
                                                        .unwrap_or(false)
                                            }
                                            _ => false,
                                        };
                                        if !ok {
                                            rep.alarms_dep.push(format!(
                                                "block {i}: read of '{}' (notify {sig}) is covered neither by a static dependency nor by a preceding observe statement",
                                                prop.name()
                                            ));
                                        }
                                    }
                                }
                            }
                        }
                        if let Statement::Assign(l, r) = s {
                            named[l.0] = match r {
                                Rvalue::Copy(Operand::NamedObject(x)) => Some(x.name.0.clone()),
                                Rvalue::Copy(Operand::Local(x)) => named[x.name.0].clone(),
                                _ => None,
                            };
                            observed[l.0].clear();
                        }
                    }
                }
            }
        }
        for (h, c) in observer_used.iter().enumerate() {
            if *c > 1 {
                rep.alarms_dep
                    .push(format!("observer slot {h} is shared by {c} observe statements"));
            }
        }
    }

    // ---- typing
    check_types(oc, &reachable, &terms, &mut rep);

    rep.shape = shape_of(code, &reachable, &terms);
    rep
}

/// Type as seen by the independent rule table.
#[derive(Clone, Debug, PartialEq)]
enum Ty<'a> {
    ConstInt,
    ConstStr,
    Null,
    EmptyList,
    Void,
    K(TypeKind<'a>),
}

fn ty_name(t: &Ty) -> String {
    match t {
        Ty::ConstInt => "integer".into(),
        Ty::ConstStr => "string".into(),
        Ty::Null => "nullptr_t".into(),
        Ty::EmptyList => "list".into(),
        Ty::Void => "void".into(),
        Ty::K(k) => k.qualified_cxx_name().into_owned(),
    }
}

fn operand_ty<'a>(a: &Operand<'a>) -> Ty<'a> {
    match a {
        Operand::Constant(c) => match &c.value {
            ConstantValue::Bool(_) => Ty::K(TypeKind::BOOL),
            ConstantValue::Integer(_) => Ty::ConstInt,
            ConstantValue::Float(_) => Ty::K(TypeKind::DOUBLE),
            ConstantValue::CString(_) => Ty::ConstStr,
            ConstantValue::QString(_) => Ty::K(TypeKind::STRING),
            ConstantValue::NullPointer => Ty::Null,
            ConstantValue::EmptyList => Ty::EmptyList,
        },
        Operand::EnumVariant(x) => Ty::K(TypeKind::Just(NamedType::Enum(x.ty.clone()))),
        Operand::Local(x) => Ty::K(x.ty.clone()),
        Operand::NamedObject(x) => Ty::K(TypeKind::Pointer(NamedType::Class(x.cls.clone()))),
        Operand::Void(_) => Ty::Void,
    }
}

fn prim(k: &TypeKind) -> Option<PrimitiveType> {
    match k {
        TypeKind::Just(NamedType::Primitive(p)) => Some(*p),
        _ => None,
    }
}

fn as_enum<'b, 'a>(k: &'b TypeKind<'a>) -> Option<&'b Enum<'a>> {
    match k {
        TypeKind::Just(NamedType::Enum(e)) => Some(e),
        _ => None,
    }
}

fn ptr_class<'a>(k: &TypeKind<'a>) -> Option<Class<'a>> {
    match k {
        TypeKind::Pointer(t) => t.clone().into_class(),
        _ => None,
    }
}

fn enums_compatible(a: &Enum, b: &Enum) -> bool {
    if a == b {
        return true;
    }
    let alias_is = |x: &Enum, y: &Enum| matches!(x.alias_enum(), Some(Ok(ref e)) if e == y);
    alias_is(a, b) || alias_is(b, a)
}

/// "no implicit conversion other than object upcast on assignment"
fn assignable(expected: &TypeKind, actual: &Ty) -> bool {
    match actual {
        Ty::Void => false,
        Ty::ConstInt => matches!(prim(expected), Some(PrimitiveType::Int | PrimitiveType::Uint)),
        Ty::ConstStr => prim(expected) == Some(PrimitiveType::QString),
        Ty::Null => expected.is_pointer(),
        Ty::EmptyList => matches!(expected, TypeKind::List(_)),
        Ty::K(a) => {
            if a == expected {
                return true;
            }
            if let (Some(e), Some(x)) = (as_enum(expected), as_enum(a)) {
                return enums_compatible(e, x);
            }
            if let (Some(e), Some(x)) = (ptr_class(expected), ptr_class(a)) {
                return x.is_derived_from(&e);
            }
            false
        }
    }
}

/// One common operand type; untyped integer literal adopts int/uint, string literal QString.
fn common<'a>(l: &Ty<'a>, r: &Ty<'a>) -> Option<Ty<'a>> {
    use PrimitiveType::*;
    match (l, r) {
        (a, b) if a == b => Some(a.clone()),
        (Ty::K(k), Ty::ConstInt) | (Ty::ConstInt, Ty::K(k))
            if matches!(prim(k), Some(Int | Uint)) =>
        {
            Some(Ty::K(k.clone()))
        }
        (Ty::K(k), Ty::ConstStr) | (Ty::ConstStr, Ty::K(k)) if prim(k) == Some(QString) => {
            Some(Ty::K(k.clone()))
        }
        (Ty::K(k), Ty::Null) | (Ty::Null, Ty::K(k)) if k.is_pointer() => Some(Ty::K(k.clone())),
        (Ty::K(k @ TypeKind::List(_)), Ty::EmptyList)
        | (Ty::EmptyList, Ty::K(k @ TypeKind::List(_))) => Some(Ty::K(k.clone())),
        (Ty::K(a), Ty::K(b)) => match (as_enum(a), as_enum(b)) {
            (Some(x), Some(y)) if enums_compatible(x, y) => Some(Ty::K(a.clone())),
            _ => None,
        },
        _ => None,
    }
}

fn concrete<'a>(t: Ty<'a>) -> Option<TypeKind<'a>> {
    match t {
        Ty::ConstInt => Some(TypeKind::INT),
        Ty::ConstStr => Some(TypeKind::STRING),
        Ty::K(k) => Some(k),
        _ => None,
    }
}

fn rvalue_ty<'a>(r: &Rvalue<'a>) -> Result<Ty<'a>, String> {
    use PrimitiveType::*;
    let bad = |what: &str, ts: &[&Ty]| {
        Err(format!(
            "{what} on ({})",
            ts.iter().map(|t| ty_name(t)).collect::<Vec<_>>().join(", ")
        ))
    };
    match r {
        Rvalue::Copy(a) => Ok(operand_ty(a)),
        Rvalue::UnaryOp(op, a) => {
            let t = operand_ty(a);
            let k = concrete(t.clone());
            let p = k.as_ref().and_then(prim);
            let ok = match op {
                UnaryOp::Arith(_) => matches!(p, Some(Int | Uint | Double)),
                UnaryOp::Bitwise(_) => {
                    matches!(p, Some(Int | Uint)) || k.as_ref().and_then(as_enum).is_some()
                }
                UnaryOp::Logical(_) => p == Some(Bool),
            };
            if ok {
                Ok(Ty::K(k.unwrap()))
            } else {
                bad(&format!("unary '{op}'"), &[&t])
            }
        }
        Rvalue::BinaryOp(op, a, b) => {
            let (l, r) = (operand_ty(a), operand_ty(b));
            match op {
                BinaryOp::Shift(_) => {
                    let lk = concrete(l.clone());
                    let lp = lk.as_ref().and_then(prim);
                    let rp = match &r {
                        Ty::ConstInt => Some(Int),
                        Ty::K(k) => prim(k),
                        _ => None,
                    };
                    if matches!(lp, Some(Int | Uint)) && matches!(rp, Some(Int | Uint)) {
                        Ok(Ty::K(lk.unwrap()))
                    } else {
                        bad(&format!("shift '{op}'"), &[&l, &r])
                    }
                }
                BinaryOp::Logical(_) => bad("logical operator left in IR", &[&l, &r]),
                _ => {
                    let c = match common(&l, &r).and_then(concrete) {
                        Some(c) => c,
                        None => return bad(&format!("binary '{op}' without common type"), &[&l, &r]),
                    };
                    let p = prim(&c);
                    let is_enum = as_enum(&c).is_some();
                    match op {
                        BinaryOp::Arith(aop) => {
                            let ok = matches!(p, Some(Int | Uint | Double))
                                || (p == Some(QString) && *aop == BinaryArithOp::Add);
                            if ok {
                                Ok(Ty::K(c))
                            } else {
                                bad(&format!("arithmetic '{op}'"), &[&l, &r])
                            }
                        }
                        BinaryOp::Bitwise(_) => {
                            if matches!(p, Some(Bool | Int | Uint)) || is_enum {
                                Ok(Ty::K(c))
                            } else {
                                bad(&format!("bitwise '{op}'"), &[&l, &r])
                            }
                        }
                        BinaryOp::Comparison(_) => {
                            if matches!(p, Some(Bool | Int | Uint | Double | QString))
                                || is_enum
                                || c.is_pointer()
                            {
                                Ok(Ty::K(TypeKind::BOOL))
                            } else {
                                bad(&format!("comparison '{op}'"), &[&l, &r])
                            }
                        }
                        _ => unreachable!(),
                    }
                }
            }
        }
        Rvalue::StaticCast(ty, a) => {
            let t = operand_ty(a);
            let tp = prim(ty);
            let ok = if tp == Some(Void) {
                true
            } else {
                match &t {
                    Ty::ConstInt => matches!(tp, Some(Int | Uint | Double)),
                    Ty::K(k) => {
                        let kp = prim(k);
                        (matches!(tp, Some(Int | Uint | Double))
                            && matches!(kp, Some(Int | Uint | Double)))
                            || (matches!(tp, Some(Int | Uint))
                                && (kp == Some(Bool) || as_enum(k).is_some()))
                    }
                    _ => false,
                }
            };
            if ok {
                Ok(if tp == Some(Void) { Ty::Void } else { Ty::K(ty.clone()) })
            } else {
                bad(&format!("static_cast<{}>", ty.qualified_cxx_name()), &[&t])
            }
        }
        Rvalue::VariantCast(ty, a) => {
            let t = operand_ty(a);
            if t == Ty::K(TypeKind::VARIANT) {
                Ok(Ty::K(ty.clone()))
            } else {
                bad("variant cast", &[&t])
            }
        }
        Rvalue::CallBuiltinFunction(f, args) => match f {
            BuiltinFunctionKind::ConsoleLog(_) => Ok(Ty::Void),
            BuiltinFunctionKind::Max | BuiltinFunctionKind::Min => {
                if args.len() != 2 {
                    return Err(format!("min/max with {} arguments", args.len()));
                }
                let (l, r) = (operand_ty(&args[0]), operand_ty(&args[1]));
                match common(&l, &r).and_then(concrete) {
                    Some(c) if matches!(prim(&c), Some(Bool | Double | Int | Uint | QString)) => {
                        Ok(Ty::K(c))
                    }
                    _ => bad("min/max", &[&l, &r]),
                }
            }
            BuiltinFunctionKind::Tr => {
                if args.len() == 1 && operand_ty(&args[0]) == Ty::ConstStr {
                    Ok(Ty::K(TypeKind::STRING))
                } else {
                    Err("qsTr() on non-literal".into())
                }
            }
        },
        Rvalue::CallMethod(obj, m, args) => {
            let ot = operand_ty(obj);
            if let Ty::K(k) = &ot {
                if let Some(c) = k.clone().into_class() {
                    if !c.is_derived_from(m.object_class()) {
                        return Err(format!(
                            "method '{}' of '{}' called on '{}'",
                            m.name(),
                            m.object_class().qualified_cxx_name(),
                            ty_name(&ot)
                        ));
                    }
                }
            }
            if args.len() != m.arguments_len() {
                return Err(format!(
                    "method '{}' takes {} arguments, given {}",
                    m.name(),
                    m.arguments_len(),
                    args.len()
                ));
            }
            for (i, (a, p)) in args.iter().zip(m.argument_types()).enumerate() {
                let t = operand_ty(a);
                if !assignable(p, &t) {
                    return Err(format!(
                        "argument {i} of '{}': '{}' is not assignable to '{}'",
                        m.name(),
                        ty_name(&t),
                        p.qualified_cxx_name()
                    ));
                }
            }
            Ok(if prim(m.return_type()) == Some(Void) {
                Ty::Void
            } else {
                Ty::K(m.return_type().clone())
            })
        }
        Rvalue::ReadProperty(obj, p) => {
            let ot = operand_ty(obj);
            match &ot {
                Ty::K(k) => match k.clone().into_class() {
                    Some(c) if c.is_derived_from(p.object_class()) => {}
                    _ => {
                        return Err(format!(
                            "property '{}' of '{}' read on '{}'",
                            p.name(),
                            p.object_class().qualified_cxx_name(),
                            ty_name(&ot)
                        ))
                    }
                },
                _ => return bad("property read", &[&ot]),
            }
            if !p.is_readable() {
                return Err(format!("read of unreadable property '{}'", p.name()));
            }
            Ok(Ty::K(p.value_type().clone()))
        }
        Rvalue::WriteProperty(obj, p, r) => {
            let ot = operand_ty(obj);
            match &ot {
                Ty::K(k) => match k.clone().into_class() {
                    Some(c) if c.is_derived_from(p.object_class()) => {}
                    _ => {
                        return Err(format!(
                            "property '{}' of '{}' written on '{}'",
                            p.name(),
                            p.object_class().qualified_cxx_name(),
                            ty_name(&ot)
                        ))
                    }
                },
                _ => return bad("property write", &[&ot]),
            }
            if !p.is_writable() {
                return Err(format!("write of read-only property '{}'", p.name()));
            }
            let t = operand_ty(r);
            if !assignable(p.value_type(), &t) {
                return Err(format!(
                    "'{}' is not assignable to property '{}' of type '{}'",
                    ty_name(&t),
                    p.name(),
                    p.value_type().qualified_cxx_name()
                ));
            }
            Ok(Ty::Void)
        }
        Rvalue::ReadSubscript(obj, idx) => {
            let (ot, it) = (operand_ty(obj), operand_ty(idx));
            let iok = match &it {
                Ty::ConstInt => true,
                Ty::K(k) => matches!(prim(k), Some(Int | Uint)),
                _ => false,
            };
            match (&ot, iok) {
                (Ty::K(TypeKind::List(e)), true) => Ok(Ty::K((**e).clone())),
                _ => bad("subscript", &[&ot, &it]),
            }
        }
        Rvalue::WriteSubscript(obj, idx, r) => {
            let (ot, it, rt) = (operand_ty(obj), operand_ty(idx), operand_ty(r));
            let iok = match &it {
                Ty::ConstInt => true,
                Ty::K(k) => matches!(prim(k), Some(Int | Uint)),
                _ => false,
            };
            match (&ot, iok) {
                (Ty::K(TypeKind::List(e)), true) if assignable(e, &rt) => Ok(Ty::Void),
                _ => bad("subscript assignment", &[&ot, &it, &rt]),
            }
        }
        Rvalue::MakeList(ty, xs) => match ty {
            TypeKind::List(e) => {
                for (i, x) in xs.iter().enumerate() {
                    let t = operand_ty(x);
                    // no implicit upcast inside array literals
                    let ok = match &t {
                        Ty::K(k) => {
                            k == e.as_ref()
                                || matches!((as_enum(k), as_enum(e)), (Some(a), Some(b)) if enums_compatible(a, b))
                        }
                        other => assignable(e, other),
                    };
                    if !ok {
                        return Err(format!(
                            "list element {i} of type '{}' in '{}'",
                            ty_name(&t),
                            ty.qualified_cxx_name()
                        ));
                    }
                }
                Ok(Ty::K(ty.clone()))
            }
            _ => Err(format!("list literal of non-list type '{}'", ty.qualified_cxx_name())),
        },
    }
}

fn check_types(
    oc: &ObservedCode,
    reachable: &[bool],
    terms: &[Option<&Terminator>],
    rep: &mut BodyReport,
) {
    let code = oc.code;
    for (i, b) in code.basic_blocks.iter().enumerate() {
        for s in &b.statements {
            match s {
                Statement::Assign(l, r) => match rvalue_ty(r) {
                    Ok(t) => {
                        let lt = &code.locals[l.0].ty;
                        if !assignable(lt, &t) {
                            rep.alarms_type.push(format!(
                                "block {i}: '{}' assigned to local %{} of type '{}'",
                                ty_name(&t),
                                l.0,
                                lt.qualified_cxx_name()
                            ));
                        }
                    }
                    Err(e) => rep.alarms_type.push(format!("block {i}: {e}")),
                },
                Statement::Exec(r) => {
                    if let Err(e) = rvalue_ty(r) {
                        rep.alarms_type.push(format!("block {i}: {e}"));
                    }
                }
                Statement::ObserveProperty(_, l, sig) => {
                    let lt = &code.locals[l.0].ty;
                    match ptr_class(lt) {
                        Some(c) if c.is_derived_from(sig.object_class()) => {}
                        _ => rep.alarms_type.push(format!(
                            "block {i}: observe of signal '{}::{}' on local of type '{}'",
                            sig.object_class().qualified_cxx_name(),
                            sig.name(),
                            lt.qualified_cxx_name()
                        )),
                    }
                }
            }
        }
        match terms[i] {
            Some(Terminator::BrCond(a, ..)) => {
                let t = operand_ty(a);
                if t != Ty::K(TypeKind::BOOL) {
                    rep.alarms_type.push(format!(
                        "block {i}: branch condition of type '{}'",
                        ty_name(&t)
                    ));
                }
            }
            Some(Terminator::Return(a)) if reachable[i] => {
                // only bindings that are handed to the C++ pass have a verified return type;
                // constants go through the (documented) implicit conversions of the .ui pass
                if let (Some(p), false, ObservedKind::Property) =
                    (oc.property, oc.is_evaluated_constant, oc.kind)
                {
                    let t = operand_ty(a);
                    if !assignable(p.value_type(), &t) {
                        rep.alarms_type.push(format!(
                            "block {i}: returns '{}' for property '{}' of type '{}'",
                            ty_name(&t),
                            p.name(),
                            p.value_type().qualified_cxx_name()
                        ));
                    }
                }
            }
            _ => {}
        }
    }
    if let Some(sig) = oc.signal {
        if code.parameter_count > sig.arguments_len() {
            rep.alarms_type.push(format!(
                "callback takes {} parameters, signal '{}' has {}",
                code.parameter_count,
                sig.name(),
                sig.arguments_len()
            ));
        }
        for (i, (p, a)) in code.locals[..code.parameter_count.min(code.locals.len())]
            .iter()
            .zip(sig.argument_types())
            .enumerate()
        {
            if !assignable(&p.ty, &Ty::K(a.clone())) {
                rep.alarms_type.push(format!(
                    "callback parameter {i} of type '{}' cannot take signal argument '{}'",
                    p.ty.qualified_cxx_name(),
                    a.qualified_cxx_name()
                ));
            }
        }
    } else if code.parameter_count != 0 {
        rep.alarms_type
            .push("property binding body with parameters".into());
    }
}

/// Coarse structural signature of a body: used to count *distinct* shapes in the evidence.
fn shape_of(code: &CodeBody, reachable: &[bool], terms: &[Option<&Terminator>]) -> String {
    let mut s = String::new();
    for (i, b) in code.basic_blocks.iter().enumerate() {
        if !reachable[i] {
            s.push('x');
            continue;
        }
        for st in &b.statements {
            s.push(match st {
                Statement::Assign(_, r) | Statement::Exec(r) => match r {
                    Rvalue::Copy(_) => 'c',
                    Rvalue::UnaryOp(..) => 'u',
                    Rvalue::BinaryOp(..) => 'b',
                    Rvalue::StaticCast(..) => 's',
                    Rvalue::VariantCast(..) => 'v',
                    Rvalue::CallBuiltinFunction(..) => 'f',
                    Rvalue::CallMethod(..) => 'm',
                    Rvalue::ReadProperty(..) => 'r',
                    Rvalue::WriteProperty(..) => 'w',
                    Rvalue::ReadSubscript(..) => 'i',
                    Rvalue::WriteSubscript(..) => 'j',
                    Rvalue::MakeList(..) => 'l',
                },
                Statement::ObserveProperty(..) => 'o',
            });
        }
        match terms[i] {
            Some(Terminator::Br(x)) => s.push_str(&format!(">{}", x.0)),
            Some(Terminator::BrCond(_, y, z)) => s.push_str(&format!("?{},{}", y.0, z.0)),
            Some(Terminator::Return(Operand::Void(_))) => s.push('.'),
            Some(Terminator::Return(_)) => s.push('R'),
            Some(Terminator::Unreachable) => s.push('!'),
            None => s.push('#'),
        }
        s.push('|');
    }
    s
}
