//! qvh: harness around the real qmluic library for the /verif monitors.
//!
//!   qvh translate  --types <path>... --jobs <jobs.jsonl> --out <results.jsonl>
//!   qvh dump-types --types <path>... --out <classes.json>
//!   qvh typequery  --jobs <jobs.jsonl> --out <results.jsonl>
//!   qvh color      --in <strings.jsonl> --out <results.jsonl>
//!
//! Every job is run under catch_unwind; results are flushed per job so that a process
//! killed by its CPU limit still leaves everything it finished.

mod monitors;
mod typeq;

use camino::{Utf8Path, Utf8PathBuf};
use codespan_reporting::files::SimpleFile;
use codespan_reporting::term;
use qmluic::diagnostic::{DiagnosticKind, Diagnostics};
use qmluic::metatype;
use qmluic::metatype_tweak;
use qmluic::qmldoc::{SyntaxErrorKind, UiDocument};
use qmluic::qtname::FileNameRules;
use qmluic::typemap::{ModuleData, ModuleId, TypeMap};
use qmluic::uigen::verif_hook::{self, ObservedKind};
use qmluic::uigen::{self, BuildContext, DynamicBindingHandling, XmlWriter};
use qmluic_cli::reporting;
use serde::Deserialize;
use serde_json::{json, Value};
use std::cell::RefCell;
use std::fs;
use std::io::{self, BufRead, BufWriter, Write};
use std::panic::{self, AssertUnwindSafe};
use std::rc::Rc;

thread_local! {
    static LAST_PANIC: RefCell<Option<String>> = const { RefCell::new(None) };
}

pub fn install_panic_hook() {
    panic::set_hook(Box::new(|info| {
        let loc = info
            .location()
            .map(|l| format!("{}:{}", l.file(), l.line()))
            .unwrap_or_default();
        let msg = if let Some(s) = info.payload().downcast_ref::<&str>() {
            (*s).to_owned()
        } else if let Some(s) = info.payload().downcast_ref::<String>() {
            s.clone()
        } else {
            "<non-string panic payload>".to_owned()
        };
        LAST_PANIC.with(|p| *p.borrow_mut() = Some(format!("{msg} @ {loc}")));
    }));
}

pub fn take_panic() -> Option<String> {
    LAST_PANIC.with(|p| p.borrow_mut().take())
}

pub fn thread_cpu_ms() -> f64 {
    let mut ts = libc::timespec {
        tv_sec: 0,
        tv_nsec: 0,
    };
    // SAFETY: plain syscall wrapper writing into a local struct
    unsafe {
        libc::clock_gettime(libc::CLOCK_THREAD_CPUTIME_ID, &mut ts);
    }
    ts.tv_sec as f64 * 1e3 + ts.tv_nsec as f64 / 1e6
}

/// Process CPU time at which the job in flight started (0 = none), for the watchdog below.
static JOB_START_CPU_MS: std::sync::atomic::AtomicU64 = std::sync::atomic::AtomicU64::new(0);

fn process_cpu_ms() -> u64 {
    let mut ts = libc::timespec {
        tv_sec: 0,
        tv_nsec: 0,
    };
    // SAFETY: plain syscall wrapper writing into a local struct
    unsafe {
        libc::clock_gettime(libc::CLOCK_PROCESS_CPUTIME_ID, &mut ts);
    }
    ts.tv_sec as u64 * 1000 + ts.tv_nsec as u64 / 1_000_000
}

/// Ends the process with SIGXCPU as soon as ONE job has used more than `limit_ms` of CPU, so that a job that does not
/// terminate costs its budget and not the CPU limit of the whole shard. The driver re-runs that job alone to confirm.
fn spawn_job_watchdog(limit_ms: u64) {
    std::thread::spawn(move || loop {
        std::thread::sleep(std::time::Duration::from_millis(250));
        let t0 = JOB_START_CPU_MS.load(std::sync::atomic::Ordering::Relaxed);
        if t0 != 0 && process_cpu_ms().saturating_sub(t0) > limit_ms {
            // SAFETY: sending a signal to ourselves
            unsafe {
                libc::signal(libc::SIGXCPU, libc::SIG_DFL);
                libc::kill(libc::getpid(), libc::SIGXCPU);
            }
        }
    });
}

fn arg_values(args: &[String], key: &str) -> Vec<String> {
    let mut out = vec![];
    let mut i = 0;
    while i < args.len() {
        if args[i] == key {
            i += 1;
            while i < args.len() && !args[i].starts_with("--") {
                out.push(args[i].clone());
                i += 1;
            }
        } else {
            i += 1;
        }
    }
    out
}

fn arg_value(args: &[String], key: &str) -> Option<String> {
    arg_values(args, key).into_iter().next()
}

pub fn load_classes(paths: &[Utf8PathBuf]) -> io::Result<Vec<metatype::Class>> {
    // same procedure as load_metatypes() of src/main.rs
    fn load_into(classes: &mut Vec<metatype::Class>, path: &Utf8Path) -> io::Result<()> {
        let data = fs::read_to_string(path)?;
        let cs = metatype::extract_classes_from_str(&data)?;
        classes.extend(cs);
        Ok(())
    }
    let mut classes = vec![];
    for path in paths {
        if path.is_dir() {
            let mut names: Vec<_> = path
                .read_dir_utf8()?
                .filter_map(|e| e.ok())
                .map(|e| e.path().to_owned())
                .filter(|p| p.as_str().ends_with(".json"))
                .collect();
            names.sort();
            for p in names {
                load_into(&mut classes, &p)?;
            }
        } else {
            load_into(&mut classes, path)?;
        }
    }
    Ok(classes)
}

pub fn make_type_map(mut classes: Vec<metatype::Class>) -> TypeMap {
    // same procedure as load_type_map() of src/main.rs
    let mut type_map = TypeMap::with_primitive_types();
    metatype_tweak::apply_all(&mut classes);
    let mut module_data = ModuleData::with_builtins();
    module_data.extend(classes);
    type_map.insert_module(ModuleId::Named("qmluic.QtWidgets"), module_data);
    type_map
}

#[derive(Deserialize)]
struct Job {
    id: String,
    source: String,
    #[serde(default = "default_type_name")]
    type_name: String,
    #[serde(default = "default_modes")]
    modes: Vec<String>,
    #[serde(default = "one")]
    reps: usize,
    /// any of: ui, ui_compact, header, observed, ir, order
    #[serde(default)]
    want: Vec<String>,
    /// definite-assignment part of the CFG monitor applies to every local
    #[serde(default)]
    defassign: bool,
    /// read the document from this file (source is ignored) and populate the directory
    /// modules reachable from it, the way generate-ui does
    #[serde(default)]
    path: Option<String>,
    /// stop after UiDocument::parse (used to attribute a CPU-budget overrun to the parser call)
    #[serde(default)]
    parse_only: bool,
    /// for `path` jobs: [dir a, component A, dir b, component B] -> does A (of directory a) derive from B (of directory b)?
    /// Answered on the type map populated from `path`; directories are given as written on disk (any spelling).
    #[serde(default)]
    component_queries: Vec<[String; 4]>,
}

fn default_type_name() -> String {
    "MyType".to_owned()
}
fn default_modes() -> Vec<String> {
    vec!["generate".into()]
}
fn one() -> usize {
    1
}

fn main() {
    let args: Vec<String> = std::env::args().skip(1).collect();
    let cmd = args.first().cloned().unwrap_or_default();
    let r = match cmd.as_str() {
        "translate" => cmd_translate(&args),
        "dump-types" => cmd_dump_types(&args),
        "typequery" => typeq::cmd_typequery(&args),
        "color" => cmd_color(&args),
        _ => {
            eprintln!("usage: qvh translate|dump-types|typequery|color ...");
            std::process::exit(2);
        }
    };
    if let Err(e) = r {
        eprintln!("qvh: {e}");
        std::process::exit(2);
    }
}

pub fn open_out(args: &[String]) -> io::Result<BufWriter<fs::File>> {
    let out = arg_value(args, "--out").ok_or_else(|| io::Error::other("--out required"))?;
    Ok(BufWriter::new(fs::File::create(out)?))
}

pub fn open_jobs(args: &[String], key: &str) -> io::Result<io::BufReader<fs::File>> {
    let p = arg_value(args, key).ok_or_else(|| io::Error::other(format!("{key} required")))?;
    Ok(io::BufReader::new(fs::File::open(p)?))
}

fn type_paths(args: &[String]) -> Vec<Utf8PathBuf> {
    arg_values(args, "--types")
        .into_iter()
        .map(Utf8PathBuf::from)
        .collect()
}

fn cmd_dump_types(args: &[String]) -> io::Result<()> {
    let mut classes = load_classes(&type_paths(args))?;
    metatype_tweak::apply_all(&mut classes);
    let mut out = open_out(args)?;
    serde_json::to_writer(&mut out, &classes)?;
    out.flush()
}

fn cmd_color(args: &[String]) -> io::Result<()> {
    use qmluic::color::Color;
    install_panic_hook();
    let mut out = open_out(args)?;
    for line in open_jobs(args, "--in")?.lines() {
        let line = line?;
        let s: String = serde_json::from_str(&line)?;
        let r = panic::catch_unwind(|| s.parse::<Color>());
        let v = match r {
            Ok(Ok(Color::Rgb8(c))) => json!({"rgb": [c.red, c.green, c.blue]}),
            Ok(Ok(Color::Rgba8(c))) => json!({"rgba": [c.red, c.green, c.blue, c.alpha]}),
            Ok(Err(e)) => json!({"err": e.to_string()}),
            Err(_) => json!({"panic": take_panic()}),
        };
        writeln!(out, "{}", v)?;
    }
    out.flush()
}

fn mode_of(s: &str) -> Option<DynamicBindingHandling> {
    match s {
        "generate" => Some(DynamicBindingHandling::Generate),
        "reject" => Some(DynamicBindingHandling::Reject),
        "omit" => Some(DynamicBindingHandling::Omit),
        _ => None,
    }
}

fn cmd_translate(args: &[String]) -> io::Result<()> {
    install_panic_hook();
    let classes = load_classes(&type_paths(args))?;
    let type_map = make_type_map(classes.clone());
    let mk = |m| {
        BuildContext::prepare(&type_map, FileNameRules::default(), m)
            .map_err(|e| io::Error::other(e.to_string()))
    };
    let ctx_gen = mk(DynamicBindingHandling::Generate)?;
    let ctx_rej = mk(DynamicBindingHandling::Reject)?;
    let ctx_omit = mk(DynamicBindingHandling::Omit)?;

    let mut out = open_out(args)?;
    let job_cpu_ms: u64 = arg_values(args, "--job-cpu-ms").first().and_then(|s| s.parse().ok()).unwrap_or(0);
    if job_cpu_ms > 0 {
        spawn_job_watchdog(job_cpu_ms);
    }
    for line in open_jobs(args, "--jobs")?.lines() {
        let line = line?;
        if line.trim().is_empty() {
            continue;
        }
        let job: Job = serde_json::from_str(&line)?;
        // announce the job first: if the process dies inside it, the driver knows which one
        writeln!(out, "{}", json!({"begin": job.id}))?;
        out.flush()?;
        JOB_START_CPU_MS.store(process_cpu_ms().max(1), std::sync::atomic::Ordering::Relaxed);
        if let Some(path) = &job.path {
            // fresh type map: directory modules are inserted into it
            let path = Utf8PathBuf::from(path);
            let mut tm = make_type_map(classes.clone());
            let mut docs_cache = qmluic::qmldoc::UiDocumentsCache::new();
            let mut pd = qmluic::diagnostic::ProjectDiagnostics::new();
            let populated = panic::catch_unwind(AssertUnwindSafe(|| {
                qmluic::qmldir::populate_directories(&mut tm, &mut docs_cache, [&path], &mut pd)
                    .map_err(|e| e.to_string())
            }));
            match populated {
                Ok(Ok(())) => {}
                Ok(Err(e)) => {
                    writeln!(out, "{}", json!({"id": job.id, "mode": "-", "rep": 0, "populate_error": e}))?;
                    continue;
                }
                Err(_) => {
                    writeln!(out, "{}", json!({"id": job.id, "mode": "-", "rep": 0, "panic": format!("populate: {}", take_panic().unwrap_or_default())}))?;
                    continue;
                }
            }
            if !job.component_queries.is_empty() {
                let answers = panic::catch_unwind(AssertUnwindSafe(|| {
                    let class_of = |dir: &str, name: &str| -> Result<qmluic::typemap::Class, String> {
                        let id = qmluic::typemap::ModuleIdBuf::Directory(qmluic::qmldir::normalize_path(dir));
                        let ns = tm.get_module(id.as_ref()).ok_or_else(|| "no such directory module".to_owned())?;
                        match qmluic::typemap::TypeSpace::get_type(&ns, name) {
                            Some(Ok(qmluic::typemap::NamedType::QmlComponent(c))) => Ok(c.into_class()),
                            Some(Ok(qmluic::typemap::NamedType::Class(c))) => Ok(c),
                            Some(Ok(_)) => Err("not a class".to_owned()),
                            Some(Err(e)) => Err(e.to_string()),
                            None => Err("no such type".to_owned()),
                        }
                    };
                    job.component_queries
                        .iter()
                        .map(|[da, a, db, b]| match (class_of(da, a), class_of(db, b)) {
                            (Ok(x), Ok(y)) => json!({"derived": x.is_derived_from(&y)}),
                            (Err(e), _) | (_, Err(e)) => json!({"error": e}),
                        })
                        .collect::<Vec<_>>()
                }));
                match answers {
                    Ok(a) => writeln!(out, "{}", json!({"id": job.id, "mode": "-", "rep": 0, "component_answers": a, "cpu_ms": process_cpu_ms() - JOB_START_CPU_MS.load(std::sync::atomic::Ordering::Relaxed)}))?,
                    Err(_) => writeln!(out, "{}", json!({"id": job.id, "mode": "-", "rep": 0, "panic": format!("component query: {}", take_panic().unwrap_or_default())}))?,
                }
                continue;
            }
            let doc = match docs_cache.get(&path) {
                Some(d) => d.clone(),
                None => {
                    writeln!(out, "{}", json!({"id": job.id, "mode": "-", "rep": 0, "populate_error": "document not loaded"}))?;
                    continue;
                }
            };
            for rep in 0..job.reps {
                for m in &job.modes {
                    let mode = mode_of(m).ok_or_else(|| io::Error::other("bad mode"))?;
                    let ctx = BuildContext::prepare(&tm, FileNameRules::default(), mode)
                        .map_err(|e| io::Error::other(e.to_string()))?;
                    let v = run_one(&ctx, Some(&doc), &job, m, rep);
                    writeln!(out, "{}", v)?;
                }
            }
            out.flush()?;
            continue;
        }
        for rep in 0..job.reps {
            for m in &job.modes {
                let mode = mode_of(m).ok_or_else(|| io::Error::other("bad mode"))?;
                let ctx = match mode {
                    DynamicBindingHandling::Generate => &ctx_gen,
                    DynamicBindingHandling::Reject => &ctx_rej,
                    DynamicBindingHandling::Omit => &ctx_omit,
                };
                let v = run_one(ctx, None, &job, m, rep);
                writeln!(out, "{}", v)?;
            }
        }
        out.flush()?;
    }
    out.flush()
}

/// FNV-1a, fixed: equal bytes <=> equal hash across processes (up to collisions).
fn fixed_hash(data: &[u8]) -> String {
    let mut h: u64 = 0xcbf29ce484222325;
    for b in data {
        h ^= *b as u64;
        h = h.wrapping_mul(0x100000001b3);
    }
    format!("{:016x}:{}", h, data.len())
}

fn wants(job: &Job, what: &str) -> bool {
    job.want.iter().any(|w| w == what)
}

fn run_one(ctx: &BuildContext, preloaded: Option<&UiDocument>, job: &Job, mode: &str, rep: usize) -> Value {
    let t0 = thread_cpu_ms();
    let mut res = json!({"id": job.id, "mode": mode, "rep": rep});

    // ---- parse
    let parsed = match preloaded {
        Some(d) => Ok(d.clone()),
        None => panic::catch_unwind(AssertUnwindSafe(|| {
            UiDocument::parse(job.source.clone(), job.type_name.clone(), None)
        })),
    };
    let doc = match parsed {
        Ok(d) => d,
        Err(_) => {
            res["panic"] = json!(format!("parse: {}", take_panic().unwrap_or_default()));
            res["cpu_ms"] = json!(thread_cpu_ms() - t0);
            return res;
        }
    };
    let source_text: String = doc.source().to_owned();
    let src_len = source_text.len();
    let has_syntax_error = doc.has_syntax_error();
    res["has_syntax_error"] = json!(has_syntax_error);
    if job.parse_only {
        res["parsed"] = json!(true);
        res["cpu_ms"] = json!(thread_cpu_ms() - t0);
        return res;
    }

    let mut range_alarms: Vec<String> = vec![];
    let mut check_range = |what: &str, s: usize, e: usize| {
        if s > e || e > src_len {
            range_alarms.push(format!("{what}: range {s}..{e} outside source of {src_len} bytes"));
        } else if !source_text.is_char_boundary(s) || !source_text.is_char_boundary(e) {
            range_alarms.push(format!("{what}: range {s}..{e} not on character boundaries"));
        }
    };

    // ---- syntax errors (collected and rendered the way the CLI does)
    let syn = panic::catch_unwind(AssertUnwindSafe(|| {
        let errors = doc.collect_syntax_errors();
        let list: Vec<Value> = errors
            .iter()
            .map(|e| {
                json!({
                    "start": e.start_byte(), "end": e.end_byte(),
                    "kind": match e.kind() { SyntaxErrorKind::Error => "error", SyntaxErrorKind::Missing => "missing" },
                    "message": e.to_string(),
                })
            })
            .collect();
        let files = SimpleFile::new("<unknown>", doc.source());
        let config = term::Config::default();
        let mut render_err = None;
        for d in reporting::make_reportable_syntax_errors(&errors) {
            let mut buf = termcolor::NoColor::new(Vec::new());
            if let Err(e) = term::emit_to_write_style(&mut buf, &config, &files, &d) {
                render_err = Some(e.to_string());
            }
        }
        (list, render_err)
    }));
    let mut render_errs: Vec<String> = vec![];
    match syn {
        Ok((list, render_err)) => {
            for e in &list {
                check_range(
                    "syntax error",
                    e["start"].as_u64().unwrap() as usize,
                    e["end"].as_u64().unwrap() as usize,
                );
            }
            res["syntax_errors"] = json!(list);
            if let Some(e) = render_err {
                render_errs.push(format!("syntax error report: {e}"));
            }
        }
        Err(_) => {
            res["panic"] = json!(format!(
                "collect/render syntax errors: {}",
                take_panic().unwrap_or_default()
            ));
        }
    }

    // ---- build (with the IR observer installed)
    let observed: Rc<RefCell<Vec<Value>>> = Rc::new(RefCell::new(vec![]));
    let order: Rc<RefCell<Vec<String>>> = Rc::new(RefCell::new(vec![]));
    {
        let observed = observed.clone();
        let order = order.clone();
        let want_ir = wants(job, "ir");
        let want_observed = wants(job, "observed") || want_ir;
        let want_order = wants(job, "order");
        let defassign = job.defassign;
        verif_hook::set_observer(Some(Box::new(move |oc| {
            if want_order {
                order
                    .borrow_mut()
                    .push(format!("{}:{}", oc.object_index, oc.path.join(".")));
            }
            if !want_observed {
                return;
            }
            let rep = monitors::check_body(oc, defassign);
            let kind = match oc.kind {
                ObservedKind::Property => "property",
                ObservedKind::Attached => "attached",
                ObservedKind::Callback => "callback",
            };
            let mut v = json!({
                "object_index": oc.object_index,
                "object": oc.object_name,
                "class": oc.object_class,
                "kind": kind,
                "path": oc.path,
                "constant": oc.is_evaluated_constant,
                "range": [oc.byte_range.start, oc.byte_range.end],
                "prop_type": oc.property.map(|p| p.value_type().qualified_cxx_name().into_owned()),
                "prop_writable": oc.property.map(|p| p.is_writable()),
                "signal": oc.signal.map(|s| s.name().to_owned()),
                "signal_args": oc.signal.map(|s| s.argument_types().iter().map(|t| t.qualified_cxx_name().into_owned()).collect::<Vec<_>>()),
                "params": oc.code.parameter_count,
                "static_deps": oc.code.static_property_deps.iter().map(|(o, m)| json!([o.0, m.name()])).collect::<Vec<_>>(),
                "observers": oc.code.property_observer_count,
                "alarms_cfg": rep.alarms_cfg,
                "alarms_defassign": rep.alarms_defassign,
                "alarms_dep": rep.alarms_dep,
                "alarms_type": rep.alarms_type,
                "n_blocks": rep.n_blocks,
                "n_reachable": rep.n_reachable,
                "n_brcond": rep.n_brcond,
                "n_stmts": rep.n_stmts,
                "n_locals": rep.n_locals,
                "n_read_property": rep.n_read_property,
                "n_observe": rep.n_observe,
                "void_return": rep.reachable_void_return,
                "value_return": rep.reachable_value_return,
                "shape": rep.shape,
            });
            if want_ir {
                let mut buf = Vec::new();
                let ok = panic::catch_unwind(AssertUnwindSafe(|| {
                    let _ = qmluic::tir::dump_code_body(&mut buf, oc.code);
                }))
                .is_ok();
                if !ok {
                    let _ = take_panic();
                }
                v["ir"] = json!(String::from_utf8_lossy(&buf));
            }
            observed.borrow_mut().push(v);
        })));
    }

    let mut diagnostics = Diagnostics::new();
    let built = panic::catch_unwind(AssertUnwindSafe(|| {
        uigen::build(ctx, &doc, &mut diagnostics)
    }));
    verif_hook::set_observer(None);

    // ---- diagnostics: ranges and rendering
    let mut diag_list: Vec<Value> = vec![];
    for d in diagnostics.iter() {
        check_range("diagnostic", d.start_byte(), d.end_byte());
        for (r, _) in d.labels() {
            check_range("diagnostic label", r.start, r.end);
        }
        diag_list.push(json!({
            "kind": match d.kind() { DiagnosticKind::Error => "error", DiagnosticKind::Warning => "warning" },
            "start": d.start_byte(), "end": d.end_byte(),
            "message": d.message(),
            "labels": d.labels().iter().map(|(r, s)| json!([r.start, r.end, s])).collect::<Vec<_>>(),
            "notes": d.notes(),
        }));
    }
    let rendered = panic::catch_unwind(AssertUnwindSafe(|| {
        let files = SimpleFile::new("<unknown>", doc.source());
        let config = term::Config::default();
        let mut errs = vec![];
        for d in reporting::make_reportable_diagnostics(&diagnostics) {
            let mut buf = termcolor::NoColor::new(Vec::new());
            if let Err(e) = term::emit_to_write_style(&mut buf, &config, &files, &d) {
                errs.push(format!("diagnostic report: {e}"));
            }
        }
        errs
    }));
    match rendered {
        Ok(errs) => render_errs.extend(errs),
        Err(_) => render_errs.push(format!(
            "diagnostic report panicked: {}",
            take_panic().unwrap_or_default()
        )),
    }
    res["diagnostics"] = json!(diag_list);
    res["has_error"] = json!(diagnostics.has_error());
    res["render_errors"] = json!(render_errs);

    // ---- serialise
    match built {
        Err(_) => {
            res["panic"] = json!(format!("build: {}", take_panic().unwrap_or_default()));
        }
        Ok(None) => {
            res["built"] = json!(false);
        }
        Ok(Some((form, ui_support))) => {
            res["built"] = json!(true);
            let ser = panic::catch_unwind(AssertUnwindSafe(|| {
                let mut pretty = Vec::new();
                form.serialize_to_xml(&mut XmlWriter::new_with_indent(&mut pretty, b' ', 1))?;
                let mut compact = Vec::new();
                form.serialize_to_xml(&mut XmlWriter::new(&mut compact))?;
                let header = match &ui_support {
                    Some(s) => {
                        let mut h = Vec::new();
                        s.write_header(&mut h)?;
                        Some(h)
                    }
                    None => None,
                };
                Ok::<_, io::Error>((pretty, compact, header))
            }));
            match ser {
                Err(_) => {
                    res["panic"] =
                        json!(format!("serialize: {}", take_panic().unwrap_or_default()));
                }
                Ok(Err(e)) => {
                    res["serialize_error"] = json!(e.to_string());
                }
                Ok(Ok((pretty, compact, header))) => {
                    res["ui_hash"] = json!(fixed_hash(&pretty));
                    res["ui_compact_hash"] = json!(fixed_hash(&compact));
                    res["header_hash"] = json!(header.as_deref().map(fixed_hash));
                    res["ui_len"] = json!(pretty.len());
                    res["ui_utf8"] = json!(std::str::from_utf8(&pretty).is_ok());
                    res["has_header"] = json!(header.is_some());
                    if wants(job, "ui") {
                        res["ui"] = json!(String::from_utf8_lossy(&pretty));
                    }
                    if wants(job, "ui_compact") {
                        res["ui_compact"] = json!(String::from_utf8_lossy(&compact));
                    }
                    if let Some(h) = header {
                        res["header_len"] = json!(h.len());
                        if wants(job, "header") {
                            res["header"] = json!(String::from_utf8_lossy(&h));
                        }
                    }
                }
            }
        }
    }

    res["range_alarms"] = json!(range_alarms);
    if wants(job, "observed") || wants(job, "ir") {
        res["observed"] = json!(*observed.borrow());
    }
    if wants(job, "order") {
        res["order"] = json!(*order.borrow());
    }
    res["cpu_ms"] = json!(thread_cpu_ms() - t0);
    res
}
