//! C17: answers of the public TypeMap / Class / Enum queries for generated class graphs.

use crate::{install_panic_hook, open_jobs, open_out, take_panic, thread_cpu_ms};
use qmluic::metatype;
use qmluic::typemap::{Class, ImportedModuleSpace, ModuleData, ModuleId, NamedType, TypeMap, TypeSpace as _};
use serde::Deserialize;
use serde_json::{json, Map, Value};
use std::io::{self, BufRead, Write};
use std::panic::{self, AssertUnwindSafe};

/// Loads the descriptions the way an embedder reading one metatypes file after the other does.
fn extend_in_batches(data: &mut ModuleData, classes: Vec<metatype::Class>, batches: usize) {
    if batches <= 1 || classes.len() <= 1 {
        data.extend(classes);
        return;
    }
    let per = (classes.len() + batches - 1) / batches;
    let mut rest = classes;
    while !rest.is_empty() {
        let tail = rest.split_off(per.min(rest.len()));
        data.extend(rest);
        rest = tail;
    }
}

#[derive(Deserialize)]
struct ModuleSpec {
    name: String,
    #[serde(default)]
    imports: Vec<String>,
    #[serde(default)]
    classes: Vec<metatype::Class>,
}

#[derive(Deserialize)]
struct Job {
    id: String,
    #[serde(default)]
    classes: Vec<metatype::Class>,
    /// further named modules (same class name may occur in several); subjects of the form "module/Class" are resolved there
    #[serde(default)]
    modules: Vec<ModuleSpec>,
    #[serde(default)]
    enums: Vec<metatype::Enum>,
    /// the classes of a module are handed to ModuleData::extend() in this many consecutive batches (0/1 = all at once)
    #[serde(default)]
    batches: usize,
    /// run the descriptions through metatype_tweak::apply_all() first, as the command line's loader does
    #[serde(default)]
    tweak: bool,
    /// class names to query (may include names that are not classes)
    subjects: Vec<String>,
    #[serde(default)]
    property_names: Vec<String>,
    #[serde(default)]
    method_names: Vec<String>,
    #[serde(default)]
    type_names: Vec<String>,
    #[serde(default)]
    variant_names: Vec<String>,
    /// names to resolve from every module of `modules`, once through the module's own import list and once through an
    /// import stack pushed module by module in the same order: the two public ways must agree
    #[serde(default)]
    resolve_names: Vec<String>,
}

fn err_str(e: impl ToString) -> Value {
    json!(format!("!{}", e.to_string()))
}

pub fn cmd_typequery(args: &[String]) -> io::Result<()> {
    install_panic_hook();
    let mut out = open_out(args)?;
    for line in open_jobs(args, "--jobs")?.lines() {
        let line = line?;
        if line.trim().is_empty() {
            continue;
        }
        let job: Job = serde_json::from_str(&line)?;
        writeln!(out, "{}", json!({"begin": job.id}))?;
        out.flush()?;
        let id = job.id.clone();
        let r = panic::catch_unwind(AssertUnwindSafe(|| run_job(job)));
        let v = match r {
            Ok(v) => v,
            Err(_) => json!({"id": id, "panic": take_panic()}),
        };
        writeln!(out, "{}", v)?;
        out.flush()?;
    }
    Ok(())
}

fn run_job(job: Job) -> Value {
    let mut type_map = TypeMap::with_primitive_types();
    let mut module_data = ModuleData::with_builtins();
    let batches = job.batches;
    let tweak = job.tweak;
    let mut classes = job.classes;
    if tweak {
        qmluic::metatype_tweak::apply_all(&mut classes);
    }
    extend_in_batches(&mut module_data, classes, batches);
    module_data.extend(job.enums);
    let module_id = ModuleId::Named("vf");
    type_map.insert_module(module_id, module_data);
    let module_specs: Vec<(String, Vec<String>)> = job.modules.iter().map(|m| (m.name.clone(), m.imports.clone())).collect();
    for m in job.modules {
        let mut data = ModuleData::with_builtins();
        for i in &m.imports {
            data.import_module(ModuleId::Named(i));
        }
        let mut classes = m.classes;
        if tweak {
            qmluic::metatype_tweak::apply_all(&mut classes);
        }
        extend_in_batches(&mut data, classes, batches);
        type_map.insert_module(ModuleId::Named(&m.name), data);
    }
    let module = type_map.get_module(module_id).unwrap();

    let t_start = thread_cpu_ms();
    let mut max_q = 0f64;
    let mut n_q = 0u64;
    let mut timed = |f: &mut dyn FnMut() -> Value| -> Value {
        let t = thread_cpu_ms();
        let v = f();
        let d = thread_cpu_ms() - t;
        if d > max_q {
            max_q = d;
        }
        n_q += 1;
        v
    };

    // resolve subjects
    let mut kinds = vec![];
    let mut classes: Vec<Option<Class>> = vec![];
    for n in &job.subjects {
        let r = match n.split_once('/') {
            Some((m, c)) => type_map.get_module(ModuleId::Named(m)).and_then(|ms| ms.get_type(c)),
            None => module.get_type(n),
        };
        let (k, c) = match r {
            Some(Ok(NamedType::Class(c))) => ("class", Some(c)),
            Some(Ok(NamedType::Enum(_))) => ("enum", None),
            Some(Ok(_)) => ("other", None),
            Some(Err(_)) => ("error", None),
            None => ("none", None),
        };
        kinds.push(k);
        classes.push(c);
    }

    let mut derived = vec![];
    let mut common = vec![];
    for a in &classes {
        let mut drow = vec![];
        let mut crow = vec![];
        for b in &classes {
            match (a, b) {
                (Some(a), Some(b)) => {
                    drow.push(timed(&mut || json!(a.is_derived_from(b))));
                    crow.push(timed(&mut || match a.common_base_class(b) {
                        Some(Ok(c)) => json!(c.name()),
                        Some(Err(e)) => err_str(e),
                        None => Value::Null,
                    }));
                }
                _ => {
                    drow.push(Value::Null);
                    crow.push(Value::Null);
                }
            }
        }
        derived.push(Value::Array(drow));
        common.push(Value::Array(crow));
    }

    let mut per_name = |names: &[String], f: &dyn Fn(&Class, &str) -> Value| -> Value {
        let mut m = Map::new();
        for n in names {
            let mut row = vec![];
            for c in &classes {
                row.push(match c {
                    Some(c) => timed(&mut || f(c, n)),
                    None => Value::Null,
                });
            }
            m.insert(n.clone(), Value::Array(row));
        }
        Value::Object(m)
    };

    let property = per_name(&job.property_names, &|c, n| match c.get_property(n) {
        Some(Ok(p)) => json!({"owner": p.object_class().name(), "type": p.value_type_name()}),
        Some(Err(e)) => err_str(e),
        None => Value::Null,
    });
    let method = per_name(&job.method_names, &|c, n| match c.get_public_method(n) {
        Some(Ok(ms)) => {
            let owners: Vec<_> = ms.iter().map(|m| m.object_class().name().to_owned()).collect();
            json!({"owner": owners[0], "count": owners.len(), "same_owner": owners.iter().all(|o| o == &owners[0])})
        }
        Some(Err(e)) => err_str(e),
        None => Value::Null,
    });
    let ty = per_name(&job.type_names, &|c, n| match c.get_type(n) {
        Some(Ok(NamedType::Enum(e))) => json!({"enum": e.qualified_cxx_name()}),
        Some(Ok(t)) => json!({"other": t.qualified_cxx_name()}),
        Some(Err(e)) => err_str(e),
        None => Value::Null,
    });
    let variant = per_name(&job.variant_names, &|c, n| match c.get_enum_by_variant(n) {
        Some(Ok(e)) => json!({"enum": e.qualified_cxx_name(), "lists": e.contains_variant(n)}),
        Some(Err(e)) => err_str(e),
        None => Value::Null,
    });

    let mut resolution = Map::new();
    for (mname, imports) in &module_specs {
        let ns = type_map.get_module(ModuleId::Named(mname)).unwrap();
        let mut pushed = ImportedModuleSpace::new(&type_map);
        let _ = pushed.import_module(ModuleId::Builtins);
        for i in imports {
            let _ = pushed.import_module(ModuleId::Named(i));
        }
        for n in &job.resolve_names {
            let a = ns.resolve_type(n);
            let b = match ns.get_type(n) {
                r @ Some(Ok(_)) => r,
                _ => pushed.get_type(n),
            };
            let verdict = match (&a, &b) {
                (Some(Ok(NamedType::Class(x))), Some(Ok(NamedType::Class(y)))) => if x == y { "same" } else { "differ" },
                (None, None) => "none",
                (Some(Err(_)), Some(Err(_))) => "error",
                (Some(Ok(_)), Some(Ok(_))) => "other",
                _ => "differ",
            };
            resolution.insert(format!("{mname}/{n}"), json!(verdict));
        }
    }

    json!({
        "id": job.id,
        "resolution": resolution,
        "subjects": job.subjects,
        "kinds": kinds,
        "derived": derived,
        "common": common,
        "property": property,
        "method": method,
        "type": ty,
        "variant": variant,
        "queries": n_q,
        "max_query_cpu_ms": max_q,
        "total_cpu_ms": thread_cpu_ms() - t_start,
    })
}
