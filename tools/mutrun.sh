#!/bin/bash
# usage: tools/mutrun.sh <patch.diff> <Cnn> [quick|thorough]   -- apply a seeded change to /repo, run a check, undo it
patch=$1; prop=$2; tier=${3:-quick}
cd /repo || exit 2
if ! git diff --quiet; then echo "/repo has uncommitted changes"; exit 2; fi
git apply "$patch" || { echo "patch does not apply"; exit 2; }
cd /verif && ./vcheck $prop $tier > .work/mutrun.out 2> .work/mutrun.err; rc=$?
git -C /repo checkout -- . 
echo "rc=$rc"; grep -c VIOLATION .work/mutrun.out; grep -A1 VIOLATION .work/mutrun.out | head -4; grep '^\s*\[' .work/mutrun.err | head -5; tail -1 .work/mutrun.err
