#!/usr/bin/env python3
"""Builds seeded/<id>/meta.json from the change's README.md, confirm.json (tools/confirm_seeded.py) and
caught.json (tools/seeded_matrix.py), and prints the table used in DESIGN.md appendix B."""
import json
import os
import re
import sys

ROOT = os.path.dirname(os.path.dirname(os.path.abspath(__file__)))


def section(text, *titles):
    for t in titles:
        m = re.search(r"^#+\s*%s[^\n]*\n(.*?)(?=^#+\s|\Z)" % t, text, re.S | re.M | re.I)
        if m:
            return " ".join(m.group(1).split())[:900]
    return ""


def main():
    rows = []
    for cid in sorted(os.listdir(os.path.join(ROOT, "seeded"))):
        d = os.path.join(ROOT, "seeded", cid)
        if not os.path.isdir(d):
            continue
        readme = open(os.path.join(d, "README.md")).read() if os.path.exists(os.path.join(d, "README.md")) else ""
        title = readme.splitlines()[0].lstrip("# ").strip() if readme else cid
        conf = json.load(open(os.path.join(d, "confirm.json"))) if os.path.exists(os.path.join(d, "confirm.json")) else {}
        caught = json.load(open(os.path.join(d, "caught.json"))) if os.path.exists(os.path.join(d, "caught.json")) else {}
        patch = "patch.adapted.diff" if os.path.exists(os.path.join(d, "patch.adapted.diff")) else "patch.diff"
        files = sorted(set(re.findall(r"^\+\+\+ b/(\S+)", open(os.path.join(d, patch)).read(), re.M)))
        meta = {
            "id": cid,
            "breaks_property": cid.split("-")[0],
            "title": title,
            "patch": patch,
            "patch_note": ("patch.diff was written against the pinned commit; patch.adapted.diff is the same change rebased onto the "
                           "tree with the fix: commits" if patch != "patch.diff" else "applies to the current tree"),
            "touches": files,
            "what_breaks": section(readme, "What breaks", "Why it breaks", "What is changed", "The change"),
            "needs_to_manifest": section(readme, "What is needed for it to manifest", "What it needs", "Needed to manifest"),
            "demonstration": "demo.sh <repo root> (exit 0 = property holds, 1 = violated)",
            "confirmed_by_me": {
                "how": "tools/confirm_seeded.py in a scratch worktree of /repo HEAD under /tmp (removed afterwards): git apply, "
                       "cargo test --workspace --no-fail-fast --offline, demo.sh with and without the patch",
                "base_commit": conf.get("base_commit"),
                "tests_with_patch": conf.get("tests_with_patch"),
                "demo_with_patch_exit": (conf.get("demo_with_patch") or {}).get("rc"),
                "demo_without_patch_exit": (conf.get("demo_without_patch") or {}).get("rc"),
            },
            "check_result": {
                "how": "tools/seeded_matrix.py: git -C /repo apply <patch>; %s; git -C /repo checkout -- ." % caught.get("check", "./vcheck"),
                "exit": caught.get("exit"),
                "signatures": [s["sig"] for s in caught.get("signatures", [])],
                "first_summary": (caught.get("signatures") or [{}])[0].get("summary"),
            },
        }
        with open(os.path.join(d, "meta.json"), "w") as f:
            json.dump(meta, f, indent=1, ensure_ascii=False)
        ok = conf.get("tests_with_patch", {}).get("failed") == 0 and meta["confirmed_by_me"]["demo_with_patch_exit"] == 1 \
            and meta["confirmed_by_me"]["demo_without_patch_exit"] == 0
        rows.append("| %s | %s | %s | %s | %s |" % (
            cid, title.split("—")[-1].split(":")[-1].strip()[:90], ", ".join(os.path.basename(x) for x in files),
            "yes" if ok else "NO", ("exit %s: " % caught.get("exit")) + ", ".join("`%s`" % s for s in meta["check_result"]["signatures"][:3])))
    print("| Change | What it does | Files | Confirmed (tests green, demo 1/0) | Check of its property (quick tier) |")
    print("|---|---|---|---|---|")
    print("\n".join(rows))


if __name__ == "__main__":
    sys.exit(main())
