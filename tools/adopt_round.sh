#!/bin/bash
# usage: tools/adopt_round.sh <Cnn> [dir-with-_out]     adopts the A/B deliverables of a sub-agent as the next two letters of seeded/<Cnn>-?,
# confirms them in a scratch worktree (tools/confirm_seeded.py), runs the check of the property against them on /repo itself under
# /tmp/repo.lock (tools/seeded_matrix.py), removes the scratch worktrees. Everything else that runs a check against /repo while
# adoptions are going on must hold the same lock:  flock /tmp/repo.lock ./vcheck ...
id=$1; src=${2:-/tmp/r8/$id}
cd /verif || exit 2
letters=(A B C D E F G H I J K L M N O P Q R S T U V W X Y Z)
ids=()
for ab in A B; do
  [ -f "$src/_out/$ab/patch.diff" ] || continue
  for l in "${letters[@]}"; do [ -e seeded/$id-$l ] || break; done
  mkdir -p seeded/$id-$l
  cp -r "$src/_out/$ab/." seeded/$id-$l/
  rm -rf seeded/$id-$l/target seeded/$id-$l/__pycache__
  ids+=($id-$l)
done
[ ${#ids[@]} -gt 0 ] || { echo "$id: nothing delivered"; exit 1; }
python3 tools/confirm_seeded.py r8$id "${ids[@]}" 2>&1 | tail -n ${#ids[@]}
git -C /repo worktree remove --force /tmp/sw/wtr8$id 2>/dev/null
git -C /repo worktree remove --force "$src" 2>/dev/null
flock /tmp/repo.lock python3 tools/seeded_matrix.py quick "${ids[@]}" 2>&1 | tail -n ${#ids[@]}
