#!/usr/bin/env python3
"""Runs every kept seeded change against the check of its property (on /repo itself: apply, check, undo).

usage: seeded_matrix.py [tier] [id...]      writes seeded/<id>/caught.json and prints one line per change
"""
import json
import os
import re
import subprocess
import sys

ROOT = os.path.dirname(os.path.dirname(os.path.abspath(__file__)))


def main():
    tier = sys.argv[1] if len(sys.argv) > 1 else "quick"
    ids = sys.argv[2:] or sorted(os.listdir(os.path.join(ROOT, "seeded")))
    if subprocess.run("git -C /repo diff --quiet", shell=True).returncode:
        sys.exit("/repo has uncommitted changes")
    for cid in ids:
        d = os.path.join(ROOT, "seeded", cid)
        if not os.path.isdir(d):
            continue
        patch = os.path.join(d, "patch.adapted.diff")
        if not os.path.exists(patch):
            patch = os.path.join(d, "patch.diff")
        prop = cid.split("-")[0]
        if subprocess.run(["git", "-C", "/repo", "apply", patch]).returncode:
            print(cid, "DOES-NOT-APPLY", flush=True)
            continue
        try:
            p = subprocess.run(["./vcheck", prop, tier], cwd=ROOT, capture_output=True, text=True, timeout=7200)
            rc, out, err = p.returncode, p.stdout, p.stderr
        except subprocess.TimeoutExpired:
            rc, out, err = None, "", "timeout"
        finally:
            subprocess.run("git -C /repo checkout -- .", shell=True)
        sigs = re.findall(r"^\s+\[([^\]]+)\] (.*)$", err, re.M)
        res = {"id": cid, "check": "./vcheck %s %s" % (prop, tier), "exit": rc,
               "violation_lines": len(re.findall(r"^VIOLATION ", out, re.M)),
               "signatures": [{"sig": s, "summary": m[:300]} for s, m in sigs[:6]]}
        with open(os.path.join(d, "caught.json"), "w") as f:
            json.dump(res, f, indent=1)
        print(cid, "exit", rc, "signatures", [s for s, _ in sigs[:4]], flush=True)
    # leave the harness built from the unchanged tree again
    subprocess.run(["./setup.sh"], cwd=ROOT, capture_output=True)


if __name__ == "__main__":
    main()
