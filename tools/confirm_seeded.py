#!/usr/bin/env python3
"""Confirms seeded changes in scratch worktrees of /repo (never in /repo itself).

usage: confirm_seeded.py <slot> <id>...      e.g. confirm_seeded.py 0 C01-A C01-B

For each change: apply patch (patch.adapted.diff if present) to a scratch worktree at /repo's HEAD, run the
repository's test suite, run the demonstration with and without the patch; write seeded/<id>/confirm.json.
The worktree /tmp/sw/wt<slot> is created on demand and must be removed by the caller
(git -C /repo worktree remove --force /tmp/sw/wt<slot>).
"""
import json
import os
import re
import subprocess
import sys

ROOT = os.path.dirname(os.path.dirname(os.path.abspath(__file__)))
ENV = dict(os.environ, CARGO_NET_OFFLINE="true")


def sh(cmd, cwd=None, timeout=3600):
    p = subprocess.run(cmd, shell=True, cwd=cwd, capture_output=True, text=True, env=ENV, timeout=timeout)
    return p.returncode, p.stdout + p.stderr


def main():
    slot = sys.argv[1]
    wt = "/tmp/sw/wt%s" % slot
    if not os.path.isdir(wt):
        os.makedirs("/tmp/sw", exist_ok=True)
        rc, out = sh("git -C /repo worktree add --detach %s HEAD" % wt)
        if rc:
            sys.exit(out)
    ENV["CARGO_TARGET_DIR"] = wt + "/target"
    head = sh("git -C %s rev-parse --short HEAD" % wt)[1].strip()
    for cid in sys.argv[2:]:
        d = os.path.join(ROOT, "seeded", cid)
        patch = os.path.join(d, "patch.adapted.diff")
        if not os.path.exists(patch):
            patch = os.path.join(d, "patch.diff")
        res = {"id": cid, "base_commit": head, "patch_file": os.path.basename(patch)}
        sh("git checkout -- . && git clean -fdq -e target", cwd=wt)
        # demo on the unchanged tree
        rc, out = sh("bash %s/demo.sh %s" % (d, wt), cwd=wt)
        res["demo_without_patch"] = {"rc": rc, "tail": out[-600:]}
        rc, out = sh("git apply %s" % patch, cwd=wt)
        res["applies"] = rc == 0
        if rc:
            res["apply_error"] = out[-500:]
        else:
            rc, out = sh("cargo test --workspace --no-fail-fast --offline 2>&1", cwd=wt)
            passed = sum(int(x) for x in re.findall(r"test result: \w+\. (\d+) passed", out))
            failed = sum(int(x) for x in re.findall(r"test result: \w+\. \d+ passed; (\d+) failed", out))
            res["tests_with_patch"] = {"rc": rc, "passed": passed, "failed": failed}
            rc, out = sh("bash %s/demo.sh %s" % (d, wt), cwd=wt)
            res["demo_with_patch"] = {"rc": rc, "tail": out[-1200:]}
        sh("git checkout -- . && git clean -fdq -e target", cwd=wt)
        with open(os.path.join(d, "confirm.json"), "w") as f:
            json.dump(res, f, indent=1)
        print(cid, "applies" if res["applies"] else "DOES-NOT-APPLY",
              "tests", res.get("tests_with_patch"), "demo patched rc", res.get("demo_with_patch", {}).get("rc"),
              "unpatched rc", res["demo_without_patch"]["rc"], flush=True)


if __name__ == "__main__":
    main()
