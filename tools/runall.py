#!/usr/bin/env python3
"""Runs every registered check (tier, seeds) one after the other and prints a table from the evidence files.

usage: runall.py <quick|thorough> [seed ...]        (default seed 1)
Used for calibration (silence on the unchanged tree at several seeds) and for the status table in DESIGN.md.
"""
import json
import os
import subprocess
import sys
import time

ROOT = os.path.dirname(os.path.dirname(os.path.abspath(__file__)))


def main():
    tier = sys.argv[1] if len(sys.argv) > 1 else "quick"
    seeds = [int(x) for x in sys.argv[2:]] or [1]
    only = os.environ.get("ONLY", "").split(",") if os.environ.get("ONLY") else None
    m = json.load(open(os.path.join(ROOT, "MANIFEST.json")))
    print("| Check | Tier | Seed | Exit | Evaluations | Distinct non-trivial | Inconclusive | Known findings seen | Wall s |")
    print("|---|---|---|---|---|---|---|---|---|")
    bad = 0
    for c in m["checks"]:
        pid = c["property_id"]
        if only and pid not in only:
            continue
        for seed in seeds:
            t0 = time.time()
            p = subprocess.run(c["%s_cmd" % tier], shell=True, cwd=ROOT, capture_output=True, text=True,
                               env=dict(os.environ, VERIF_SEED=str(seed)))
            wall = time.time() - t0
            try:
                ev = json.load(open(os.path.join(ROOT, "evidence", pid + ".json")))
                cov = ev["coverage"]
            except (OSError, ValueError):
                cov = {}
            if p.returncode != 0 or "VIOLATION" in p.stdout:
                bad += 1
                sys.stderr.write("== %s seed %d exit %d\n%s\n%s\n" % (pid, seed, p.returncode, p.stdout[-1500:], p.stderr[-1500:]))
            print("| %s | %s | %d | %d | %s | %s | %s | %s | %.0f |" % (
                pid, tier, seed, p.returncode, cov.get("evaluations"), cov.get("distinct_nontrivial"), cov.get("inconclusive"),
                ", ".join("%s×%d" % kv for kv in (cov.get("known_findings_observed") or {}).items()) or "-", wall), flush=True)
    return 1 if bad else 0


if __name__ == "__main__":
    sys.exit(main())
