#!/usr/bin/env python3
"""Puts the tables printed by tools/runall.py into DESIGN.md appendix C (between the status-table markers).

usage: mkstatus.py <runall output file>...
"""
import os
import sys

ROOT = os.path.dirname(os.path.dirname(os.path.abspath(__file__)))


def main():
    rows = []
    head = None
    for fn in sys.argv[1:]:
        for line in open(fn):
            if line.startswith("| Check") or line.startswith("|---"):
                head = head or []
                if len(head) < 2:
                    head.append(line)
            elif line.startswith("| C"):
                rows.append(line)
    p = os.path.join(ROOT, "DESIGN.md")
    s = open(p).read()
    b = s.index("<!-- status-table-begin -->") + len("<!-- status-table-begin -->\n")
    e = s.index("<!-- status-table-end -->")
    s = s[:b] + "".join(head or []) + "".join(rows) + s[e:]
    open(p, "w").write(s)
    print("%d rows" % len(rows))


if __name__ == "__main__":
    main()
