#!/usr/bin/env python3
"""Writes /verif/MANIFEST.json from the table below and validates it against the schema."""
import json
import os
import sys

ROOT = os.path.dirname(os.path.dirname(os.path.abspath(__file__)))

# id -> (technique, level category, level text, level note, design ref)
RM = "runtime monitoring: "

CHECKS = {
    "C01": (
        RM + "generated binding programs compiled from the emitted support header against an executable Qt API model and executed "
        "under ASan+UBSan in boundary-biased states; reference-interpreter oracle on every defined (program, state) pair",
        "exploration",
        "About a thousand type-directed random programs per quick run (expressions and statement blocks with let/const/shadowing, "
        "if/else, switch with default anywhere, fall-through, break under if, early return, completion values; forced constant-folding "
        "cells per operator and sign class) are translated by the real library, the UNMODIFIED uisupport header is compiled with g++ and "
        "every eval function is called in 24 states; values are compared exactly (bit-identical doubles, UTF-16 code units). A binding "
        "for which no code is generated must denote the same value in every state. List element assignment, an object id equal to a "
        "property name, a table of spelled string literals, gadget member bindings, fall-through switches with clause-level lets and a "
        "regeneration scenario (a sibling component changes its class: the header on disk must be the code of the current inputs) are "
        "part of the workload.",
        "Trusted: reference interpreter qv/gen_expr.py (documented semantics; overflow, uint wrap, NaN, null dereference, bad subscript = "
        "undefined and never executed), API model cxx/qtmodel_rt.h + qv/cxxmodel.py, mini-uic.",
        "DESIGN.md §4 C01",
    ),
    "C02": (
        RM + "generated binding networks run against a signal/slot model through change histories (set, re-point, null, change old "
        "peer); invariant target == reference fix point checked at every quiescent point; online dependency monitor on the IR via the hook",
        "exploration",
        "After setup() and after each of 30-60 accepted steps all bound targets are dumped and compared with the reference fix point of "
        "the binding network; the IR monitor checks that every non-constant pointer property read is covered by a static dependency or a "
        "preceding observe statement; bindings reading a notify-less (or bindable-only) property must be rejected; a binding "
        "without update code whose reference value differs between two states is a violation. Gadget member bindings are targets of "
        "the networks; regeneration scenarios (only a binding expression or a handler edited, .ui byte-identical) compare the header on "
        "disk with a generation into an empty directory.",
        "Only quiescent states are judged (no UBSan arithmetic checks here: transient mixes of old and new values may be undefined). "
        "Model setters never clamp; object deletion is not modelled.",
        "DESIGN.md §4 C02",
    ),
    "C03": (
        RM + "literal-only expressions in every spelling through the real library; emitted .ui values decoded by expat and compared "
        "with an independent checked-64-bit / IEEE / UTF-16 reference",
        "exploration",
        "Thousands of constant bindings (one document each; also constant statement blocks with assignments, element assignments and "
        "shadowing) over the foldable operators with values biased to 2^31, 2^32, 2^53, 2^62, "
        "2^63-1 in all radix / separator / exponent spellings, strings with escapes, enums, flag unions, string lists, object references; "
        "embedded values must equal the reference, expressions with undefined value must not be embedded.",
        "Not judged: integers outside the range of the bound property type, non-finite doubles, legacy octal.",
        "DESIGN.md §4 C03",
    ),
    "C04": (
        RM + "generated documents and single planted faulty bindings through the real library; each source binding located in the "
        "emitted .ui and the emitted header (place-count monitor), diagnostic byte ranges compared with the binding's bytes; the real "
        "CLI on multi-source invocations with stale outputs (exit status, inode/mtime/sha256 snapshots)",
        "exploration",
        "Every binding of every accepted document (constant, dynamic, grouped with and without dynamic members, attached, pseudo, "
        "signal handlers; thousands per run) must be found in exactly one place: as a value on its object's element in the .ui or as "
        "the update function writing that property through that object / the setup function connecting that signal. One faulty "
        "binding of 18 kinds is planted anywhere: an error diagnostic must lie inside the binding's bytes. A sample goes through the "
        "CLI as Broken.qml among fine sources in every position, with stale outputs present or absent: non-zero exit, nothing created "
        "or modified for the broken source.",
        "Constant members of a group with a dynamic member may be in either or both outputs (as the property allows). For duplicate "
        "bindings the diagnostic may lie in either twin.",
        "DESIGN.md §4 C04",
    ),
    "C05": (
        RM + "catalogue of single type-breaking edits and generated programs with AST-level single-edit mutants through the real "
        "library; acceptance oracle + independent IR typing monitor via the hook",
        "exploration",
        "Every catalogue entry (operand types, conditions, unsupported syntax, assignments, arguments, callback parameters, result type) "
        "is tried with constant and property-reading operands and must be rejected; generated well-typed programs (dynamic and constant "
        "profile, callbacks) must be accepted, their mutants rejected; every accepted body is re-typed by an independent rule table. "
        "Rows cover classes with unresolvable / protected bases, inherited properties typed in the declaring class's scope, branch-scoped "
        "declarations, void values and untyped literals in every position (arguments, list elements, returns in the middle).",
        "Only edits that are unambiguously ill-typed by docs/language.md are generated.",
        "DESIGN.md §4 C05",
    ),
    "C06": (
        RM + "CFG + definite-assignment monitor on the finished IR via the hook over thousands of bodies, token scan of every emitted "
        "function, execution under sanitizers (quick) / valgrind memcheck with origin tracking (thorough)",
        "exploration",
        "Value programs and callback bodies with arbitrary nestings of ternary, &&, ||, if/else, switch, break, early return, dead "
        "code and trailing declarations; jump targets, reachable unreachable-markers, mixed void/value returns, reads of locals not "
        "assigned on every path; Q_UNREACHABLE events and uninitialised reads at run time on defined cases; gadget member bindings "
        "and void-bodied bindings on QVariant properties (rejected, or a value on every path).",
        "Definite assignment is judged for every local because the generators give every declaration an initialiser.",
        "DESIGN.md §4 C06",
    ),
    "C08": (
        RM + "hash-heavy documents translated repeatedly in shuffled order inside fresh processes and through the CLI; equality "
        "oracle; hash-order diversity measured through the hook",
        "exploration",
        "Each document is translated 24-60 times; .ui, compact .ui, header hashes and the diagnostic set must be identical; the hook "
        "reports the order in which the real HashMaps were iterated, so the evidence shows that iteration orders really differed; the "
        "CLI is run three times per document and must not touch unchanged outputs; multi-source invocations are repeated in fresh "
        "processes, their diagnostics must equal the union of each source translated alone, and a revision generated over the outputs "
        "of another must equal the same revision generated into an empty directory.",
        "A run in which no document showed two visit orders is inconclusive.",
        "DESIGN.md §4 C08",
    ),
    "C09": (
        RM + "seeded hostile-string documents through the real library; emitted .ui re-read by an independent XML parser (expat), "
        "grammar-table monitor, string read-back oracle",
        "exploration",
        "Hundreds to thousands of generated documents carry markup, quotes, blanks, line breaks, CR, non-ASCII and astral strings in every "
        "string-bearing position; both serialisations (pretty, compact) are parsed with expat, checked against a transcribed ui4 grammar "
        "subset and every string/class/name is read back and compared with the generator's value; a table of spelled literals "
        "(continuations, identity and surrogate escapes) and multi-source CLI re-runs are included.",
        "Trusted: expat, the grammar table in qv/uiparse.py, the generator's own record of the strings it printed. Strings with characters "
        "XML 1.0 cannot carry are only required to yield a well-formed file or a rejection.",
        "DESIGN.md §4 C09",
    ),
    "C10": (
        RM + "generated object trees with adversarial ids / component names (files on disk, directory modules) through the real "
        "library; set-arithmetic monitor over names and references of .ui and support header",
        "exploration",
        "Ids and custom component names are drawn from the space of generated-looking names (label1, Label1, widget2...); the monitor "
        "checks pairwise distinct names, ids used verbatim, generated names derived from the class and distinct from ids, every "
        "addaction / object-valued property / ui_-> access resolving to one declared object of a compatible kind, and that duplicated "
        "ids and references to incompatible objects are rejected; collision clusters (class, components <Stem><digits>, generated-looking "
        "ids), the reserved word 'separator' and callback function names are part of the name space.",
        "Class compatibility of ui_-><name> accesses in the header is decided by compiling it (C16).",
        "DESIGN.md §4 C10",
    ),
    "C11": (
        RM + "random object trees through the real library; tree-isomorphism monitor between the generator's tree and the parsed .ui",
        "exploration",
        "Trees of depth <= 7 over widgets, four layout classes, spacers, actions, separators, menus, tab widgets and main windows; "
        "each object must appear once, as the right element kind, under its parent (through <item> in layouts), in source order, "
        "with the right class; addaction sequences are compared with declaration order / the explicit actions list; a sixth of the "
        "documents decorate children with annotations / comments (rejected, or every object present).",
        "The generator's tree is the reference; rejected documents are not judged here.",
        "DESIGN.md §4 C11",
    ),
    "C12": (
        RM + "generated grid/form/box layouts through the real library; reference flow-model oracle over <item> cells and layout arrays",
        "exploration",
        "Layouts with 1-14 children and random optional row/column/span/alignment/stretch/minimum-size attachments in both flows and all "
        "column/row counts; a 40-line reference of the flow rule predicts every cell and every specified array entry; a sixth of the cases "
        "carries one invalid or conflicting value (negative, >= count, around 2^31 / 2^32 / 2^53, conflicting per-row values, a "
        "duplicated attachment) and must be rejected; spans of -1, all-0 / all-1 stretch modes and mixed attached-type spellings are covered.",
        "Reference model written from the property text; cursor semantics of a lone row/column as pinned by the repository's unit tests. "
        "Unspecified array entries are not judged.",
        "DESIGN.md §4 C12",
    ),
    "C13": (
        RM + "generated signal handlers compiled from the emitted header against the API model; connect events and effect traces "
        "(property writes, method calls, console output) compared with the reference interpreter in statement mode",
        "exploration",
        "Handlers in every form (expression, block, function, arrow; 0..n leading parameters) on Qt and synthetic signals incl. "
        "default-argument families and inherited signals; setup() must connect exactly one handler to the overload with most "
        "arguments; each defined (state, arguments) tuple is emitted and its effect trace compared in content and order; handlers on true "
        "overloads, non-signals or with incompatible parameters must be rejected. Also: handlers whose parameters are value classes "
        "(QFont) and are modified / copied / re-assigned; handlers on anonymous objects next to look-alike classes, clicked by tree "
        "position; a variable re-declared in a case clause and read after the switch; handler-only edits generated over the previous "
        "outputs through the CLI (header on disk == header of the current source).",
        "At most one side-effecting call per statement; order between a call's receiver and arguments is not judged.",
        "DESIGN.md §4 C13",
    ),
    "C14": (
        RM + "each generated document (constant-only, dynamic, callbacks, warning-only, single fault) translated in the three modes "
        "by the real library; relational monitor across the three results",
        "exploration",
        "Checks .ui byte equality across modes (documents with and without a warning), reject-acceptance <=> generate-acceptance with an empty header, omit errors being a subset "
        "of generate errors, and header presence in generate mode only; 18 documents bind dynamic expressions to constant-only targets; "
        "on disk, a tree generated with --no-dynamic-binding and then in generate mode must hold the header of a generation into an "
        "empty tree and the same .ui bytes.",
        "Header emptiness is read from the emitted header text (BindingIndex enumerators, on* functions, setup body).",
        "DESIGN.md §4 C14",
    ),
    "C07": (
        RM + "hostile documents (ODD shapes, token-aware mutants, truncations, token soup) through the real library in the three "
        "modes under catch_unwind with a CPU watchdog, through the real CLI (exit status), and under valgrind memcheck (thorough)",
        "exploration",
        "Thousands of documents per run: hand-written odd shapes of every construct, valid generated documents, syntax-preserving token "
        "mutations (swap/duplicate/delete/replace tokens with other tokens of the pool), truncations at every token class, and token "
        "soup; each is translated in generate, reject and omit mode; a panic, abort, CPU-budget overrun, or CLI exit status other than "
        "0/1 is a violation; an accepted document must yield well-formed XML. Shards run under an 8 GiB memory budget: a document that, run "
        "alone, kills the process (abort on a failed allocation, stack overflow) is a process-crash violation; layouts with huge indices "
        "and per-index attributes are among the odd shapes.",
        "Termination is restated as a CPU budget (10 s per translation; the median is milliseconds). Stack exhaustion by pathological "
        "nesting depth beyond 200 levels is not driven.",
        "DESIGN.md §4 C07",
    ),
    "C15": (
        RM + "the real CLI under strace: syscall-level observation of every file-mutating call, tree snapshots (inode, mtime, mode, "
        "sha256) around every run, and fault enumeration by strace injection (SIGKILL at, or errno from, each file-mutating syscall)",
        "fault_enumeration",
        "Path shapes (plain, ./, dir/../dir, absolute, parent-escaping in five spellings, several sources, a source that is a symbolic "
        "link to a file with another stem; nested, spaced, non-ASCII names) x options "
        "(-O, --no-dynamic-binding, --no-lowercase-file-name): the set of new files must be exactly the expected one, every mutating "
        "syscall must name an expected output, a .tmp sibling or a created parent; escaping sources must be refused with nothing written; "
        "re-runs must keep inode+mtime; edit/regenerate histories of 14 step kinds (after each step the outputs equal a fresh generation "
        "of the current inputs); then for a regeneration over existing old outputs and for a first generation one run per "
        "file-mutating syscall with SIGKILL injected at its entry (every crash point the syscall trace distinguishes) and errno "
        "injections: every output path must hold its complete old or complete new bytes.",
        "Crash points are enumerated at syscall granularity for the traced schedule (the CLI is single-threaded); power-loss durability "
        "(fsync ordering) is not part of the property and not judged. stderr is never a fault target.",
        "DESIGN.md §4 C15",
    ),
    "C16": (
        RM + "emitted support headers compiled (g++ -std=c++17 -Wall -Werror=return-type) against API declarations generated from "
        "the same type information + mini-uic output; token-scan monitor; hostile string literals compiled and printed",
        "exploration",
        "Headers of tree documents (dynamic, callback and gadget sub-bindings, adversarial ids), program documents with up to 72 "
        "bindings (crossing the 32/64 guard words), callback documents, hazard shapes and name-prefix collision documents; the scan checks "
        "single definition of every called member, distinct binding indices, guard/observer array sizes, includes.",
        "The API model stands in for Qt's headers; QFlags operators are not modelled.",
        "DESIGN.md §4 C16",
    ),
    "C17": (
        RM + "random class graphs loaded through the real type-map loader; all-pairs/all-names queries compared with a plain "
        "graph search; CPU-time watchdog for termination",
        "exploration",
        "Hundreds to thousands of generated class graphs (chains, multiple inheritance, diamonds, private/protected edges, self loops, cycles, "
        "dangling and non-class super names) are loaded as type information (directly or through the loader's fix-up pass "
        "metatype_tweak::apply_all, properties carrying every moc key); is_derived_from, get_property, get_public_method, nested "
        "enum and variant lookups and common_base_class are queried for all subject pairs and pool names and compared with a BFS over the "
        "JSON description; every query must finish within a CPU budget. Members carry types (some unresolvable); a quarter of the graphs "
        "span several modules with same-named distinct classes and modules imported twice, and every name is resolved through the import "
        "list and through a pushed import stack (the two must agree); the descriptions reach a module in 1, 2, 3 or n extend() batches. "
        "Class graphs made of QML component files on disk (directories importing each other by string in several spellings of the same "
        "path, diamonds, cycles) are populated as generate-ui does and is_derived_from is compared for all pairs of components.",
        "Termination is restated as bounded progress (10 s CPU per job; observed maximum well below 1 ms per query).",
        "DESIGN.md §4 C17",
    ),
    "C18": (
        RM + "generated multi-directory projects run through the real CLI in several source-argument orders, each source alone, "
        "and from a sub directory; <customwidgets> oracle from the project model; byte comparison across invocations; CPU watchdog",
        "exploration",
        "Projects of 1-5 directories (nested, spaced names) with 2-12 components rooted in Qt classes or in other components, string "
        "imports in six spellings (./, trailing /, dir/../dir detours, ../ climbs), mutually importing directories, mutually and self "
        "inheriting components; documents instantiate components interleaved (X, Y, X), nested and as root, with base-class properties. "
        "Judged: every instantiated type listed exactly once with class / extends (= root type of its file) / header per file-name rule, "
        "base-class property values on the instances, identical bytes for a source across all invocations, exit 0/1 within a CPU budget. "
        "Same-named components in different directories (precedence settled by qmluic's own answer for the component file), non-ASCII "
        "component names and component files that are symbolic links into a store that is not imported are part of the projects.",
        "The CLI stops at the first failing source; outputs a failing invocation did not reach are not counted as order dependence. "
        "Bases of instantiated components may be listed too.",
        "DESIGN.md §4 C18",
    ),
    "C19": (
        RM + "reference-model oracle over exhaustive short-hex / keyword spaces and sampled strings, in-process through the real "
        "Color parser and end-to-end through the emitted .ui",
        "exploration",
        "Every 3- and 4-digit hex colour and every SVG keyword (5 letter cases) is decoded by the real parser and compared "
        "with an independently written decoder and an independently sourced keyword table; 6-/8-digit colours and "
        "non-colour strings (incl. white-space padded and quote-wrapped colours) are sampled; hundreds go end to end through "
        "<color>/<brush>/<palette> elements of the .ui, with escaped spellings, both string delimiters and, in every third document, a "
        "warning next to the possible error.",
        "Trusted: the reference decoder (30 lines, from the property text) and qv/svgcolors.py. 6-/8-digit and junk strings are sampled, not exhausted.",
        "DESIGN.md §4 C19",
    ),
    "C20": (
        RM + "pairs (document, same document with one planted fault) translated in omit mode by the real library; masked tree-diff monitor",
        "exploration",
        "One fault of a dozen kinds (incl. ill-typed pseudo properties, faults on separators and on layout children followed by auto-flow siblings) is planted at a random object of an accepted document (some with custom components on disk); in omit mode "
        "the faulted document must still yield a form and an error, the form must equal the reference form outside the faulty object "
        "(which may only lose its own values), and for unknown/invalid types exactly that subtree must be absent.",
        "Masked as the object's own values: its property/attribute/item/addaction children, its wrapping <item> attributes and its parent "
        "layout's per-row/column arrays.",
        "DESIGN.md §4 C20",
    ),
}

NOT_YET = {}


def main():
    props = [json.loads(l) for l in open(os.path.join(ROOT, "properties.jsonl"))]
    checks = []
    na = []
    for p in props:
        pid = p["id"]
        if pid in CHECKS:
            tech, cat, text, note, ref = CHECKS[pid]
            checks.append({
                "property_id": pid,
                "quick_cmd": "./vcheck %s quick" % pid,
                "thorough_cmd": "./vcheck %s thorough" % pid,
                "evidence_file": "/verif/evidence/%s.json" % pid,
                "replay_cmd_template": "./vcheck %s quick --replay {path}" % pid,
                "engine": "vcheck",
                "level_claimed": {"category": cat, "text": text, "design_ref": ref},
                "level_note": note,
                "technique": tech,
            })
        else:
            na.append({"property_id": pid, "reason": NOT_YET.get(pid, "check under construction in this round; not claimed yet")})
    m = {
        "version": 1,
        "setup_cmd": "./setup.sh",
        "hooks": {
            "guard": "cargo feature yuja_qmluic_verif (crates qmluic and qmluic-cli)",
            "enable": "cargo build --release --features yuja_qmluic_verif (done by every ./vcheck run via qv/common.py:build)",
            "baseline_off_cmd": "cd /repo && cargo test --workspace --no-fail-fast --offline",
            "source_commits": ["671d489"],
            "add_only": True,
        },
        "engines": [{
            "name": "vcheck",
            "path": "/verif/vcheck",
            "serves_properties": [c["property_id"] for c in checks],
            "kind_free_text": "runtime monitoring: seeded hostile workloads through the real library (Rust harness qvh with the "
                              "IR observation hook), the real CLI (strace observation / fault injection) and the generated C++ "
                              "(compiled against an executable Qt API model under ASan+UBSan / valgrind), judged by reference-model oracles",
        }],
        "checks": checks,
        "notes": "All verdicts are 'held on the executions observed'. exit 2 = machinery failure (no verdict). "
                 "KNOWN_FINDINGS.txt lists genuine defects found (open: / fixed:).",
        "not_applicable": na,
    }
    path = os.path.join(ROOT, "MANIFEST.json")
    with open(path, "w") as f:
        json.dump(m, f, indent=1)
        f.write("\n")
    try:
        import jsonschema
        jsonschema.validate(m, json.load(open("/root/.vp/MANIFEST.schema.json")))
        print("MANIFEST.json valid: %d checks, %d not_applicable" % (len(checks), len(na)))
    except ImportError:
        print("MANIFEST.json written (jsonschema not available here)")


if __name__ == "__main__":
    sys.exit(main())
