#!/usr/bin/env python3
"""Writes /verif/MANIFEST.json from the table below and validates it against the schema."""
import json
import os
import sys

ROOT = os.path.dirname(os.path.dirname(os.path.abspath(__file__)))

# id -> (technique, level category, level text, level note, design ref)
CHECKS = {
    "C19": (
        "runtime monitoring: reference-model oracle over exhaustive short-hex / keyword spaces and sampled strings, "
        "in-process through the real Color parser and end-to-end through the emitted .ui",
        "exploration",
        "Every 3- and 4-digit hex colour and every SVG keyword (5 letter cases) is decoded by the real parser and compared "
        "with an independently written decoder and an independently sourced keyword table; 6-/8-digit colours and "
        "non-colour strings are sampled; a sample goes end to end through <color>/<brush>/<palette> elements of the .ui.",
        "Trusted: the reference decoder (30 lines, from the property text) and qv/svgcolors.py. 6-/8-digit and junk strings are sampled, not exhausted.",
        "DESIGN.md §4 C19",
    ),
}

NOT_YET = {}


def main():
    props = [json.loads(l) for l in open(os.path.join(ROOT, "properties.jsonl"))]
    checks = []
    na = []
    for p in props:
        pid = p["id"]
        if pid in CHECKS:
            tech, cat, text, note, ref = CHECKS[pid]
            checks.append({
                "property_id": pid,
                "quick_cmd": "./vcheck %s quick" % pid,
                "thorough_cmd": "./vcheck %s thorough" % pid,
                "evidence_file": "/verif/evidence/%s.json" % pid,
                "replay_cmd_template": "./vcheck %s quick --replay {path}" % pid,
                "engine": "vcheck",
                "level_claimed": {"category": cat, "text": text, "design_ref": ref},
                "level_note": note,
                "technique": tech,
            })
        else:
            na.append({"property_id": pid, "reason": NOT_YET.get(pid, "check under construction in this round; not claimed yet")})
    m = {
        "version": 1,
        "setup_cmd": "./setup.sh",
        "hooks": {
            "guard": "cargo feature yuja_qmluic_verif (crates qmluic and qmluic-cli)",
            "enable": "cargo build --release --features yuja_qmluic_verif (done by every ./vcheck run via qv/common.py:build)",
            "baseline_off_cmd": "cd /repo && cargo test --workspace --no-fail-fast --offline",
            "source_commits": ["671d489"],
            "add_only": True,
        },
        "engines": [{
            "name": "vcheck",
            "path": "/verif/vcheck",
            "serves_properties": [c["property_id"] for c in checks],
            "kind_free_text": "runtime monitoring: seeded hostile workloads through the real library (Rust harness qvh with the "
                              "IR observation hook), the real CLI (strace observation / fault injection) and the generated C++ "
                              "(compiled against an executable Qt API model under ASan+UBSan / valgrind), judged by reference-model oracles",
        }],
        "checks": checks,
        "notes": "All verdicts are 'held on the executions observed'. exit 2 = machinery failure (no verdict). "
                 "KNOWN_FINDINGS.txt lists genuine defects found (open: / fixed:).",
        "not_applicable": na,
    }
    path = os.path.join(ROOT, "MANIFEST.json")
    with open(path, "w") as f:
        json.dump(m, f, indent=1)
        f.write("\n")
    try:
        import jsonschema
        jsonschema.validate(m, json.load(open("/root/.vp/MANIFEST.schema.json")))
        print("MANIFEST.json valid: %d checks, %d not_applicable" % (len(checks), len(na)))
    except ImportError:
        print("MANIFEST.json written (jsonschema not available here)")


if __name__ == "__main__":
    sys.exit(main())
