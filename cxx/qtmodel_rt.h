// Hand-written runtime of the executable Qt API model used by the /verif checks.
//
// Trusted base.  It mirrors only what generated support headers rely on: QObject with direct
// signal/slot connections (functor may take fewer arguments than the signal, connection handles
// with operator bool, disconnect), QString as UTF-16 code units (QStringLiteral(x) = u"" x exactly
// as in Qt, so the *compiler* decodes the literal qmluic printed), QList/QStringList, QVariant,
// QCoreApplication::translate (identity + logged context), Q_ASSERT_X / Q_UNREACHABLE that log an
// event, and an append-only event log.  Deliberately NOT mirrored: QFlags operator overloads,
// implicit sharing, event loop, object deletion.  qDebug() & co. live in <QtDebug> only.
#pragma once
#include <cstdint>
#include <cstdio>
#include <cstdlib>
#include <cstring>
#include <functional>
#include <initializer_list>
#include <map>
#include <memory>
#include <string>
#include <tuple>
#include <type_traits>
#include <utility>
#include <vector>

typedef unsigned int uint;
typedef uint32_t quint32;
typedef double qreal;

class QObject;
class QString;

namespace qvm {

// ------------------------------------------------------------------------------------------
// event log: one JSON object per line on stdout, flushed at once so that an abnormal end
// (sanitizer abort, SIGFPE, unreachable marker) still leaves an attributable log
inline std::string &tag() { static std::string t; return t; }
inline bool &quiet() { static bool q = false; return q; }

inline void put(const std::string &line) {
    if (quiet()) return;
    std::string s = "{\"tag\":\"" + tag() + "\"," + line + "}\n";
    fwrite(s.data(), 1, s.size(), stdout);
    fflush(stdout);
}

inline std::string jstr(const std::string &s) {
    std::string o = "\"";
    for (unsigned char c : s) {
        char buf[8];
        if (c == '"' || c == '\\') { o += '\\'; o += (char)c; }
        else if (c < 0x20 || c >= 0x7f) { snprintf(buf, sizeof buf, "\\u%04x", c); o += buf; }
        else o += (char)c;
    }
    return o + "\"";
}

std::string objname(const QObject *o);

template <class T, class = void> struct Show;   // value -> JSON

inline std::string show_double(double d) {
    uint64_t bits;
    memcpy(&bits, &d, sizeof bits);
    char buf[64];
    snprintf(buf, sizeof buf, "{\"d\":\"%016llx\"}", (unsigned long long)bits);
    return buf;
}

template <> struct Show<bool> { static std::string of(bool v) { return v ? "true" : "false"; } };
template <> struct Show<int> { static std::string of(int v) { return std::to_string(v); } };
template <> struct Show<uint> { static std::string of(uint v) { return "{\"u\":" + std::to_string(v) + "}"; } };
template <> struct Show<long> { static std::string of(long v) { return "{\"l\":" + std::to_string(v) + "}"; } };
template <> struct Show<long long> { static std::string of(long long v) { return "{\"l\":" + std::to_string(v) + "}"; } };
template <> struct Show<double> { static std::string of(double v) { return show_double(v); } };
template <> struct Show<const char *> { static std::string of(const char *v) { return jstr(v ? v : ""); } };
template <class T> struct Show<T, typename std::enable_if<std::is_enum<T>::value>::type> {
    static std::string of(T v) { return "{\"e\":" + std::to_string((long long)v) + "}"; }
};
template <class T> struct Show<T *, typename std::enable_if<std::is_base_of<QObject, T>::value>::type> {
    static std::string of(T *v) { return "{\"o\":" + jstr(objname(v)) + "}"; }
};
template <class T> std::string show(const T &v) { return Show<T>::of(v); }

// ------------------------------------------------------------------------------------------
// signals
struct ConnData {
    bool alive = true;
    const QObject *sender = nullptr;
    std::string signal;
    std::function<void(const void *)> call;   // argument: pointer to std::tuple<decayed Args...>
};

inline bool &probing() { static bool p = false; return p; }
inline std::string &probed() { static std::string s; return s; }
inline std::map<std::pair<const QObject *, std::string>, std::vector<std::shared_ptr<ConnData>>> &table() {
    static std::map<std::pair<const QObject *, std::string>, std::vector<std::shared_ptr<ConnData>>> t;
    return t;
}
inline int &emit_depth() { static int d = 0; return d; }

template <class... A> std::string show_args(const A &...a) {
    std::string s = "[";
    bool first = true;
    (void)std::initializer_list<int>{((s += (first ? "" : ",")), (s += show(a)), (first = false), 0)...};
    return s + "]";
}

template <class... A> void emit_signal(const QObject *sender, const char *id, const A &...a) {
    put("\"ev\":\"emit\",\"obj\":" + jstr(objname(sender)) + ",\"signal\":" + jstr(id) + ",\"args\":" + show_args(a...));
    std::tuple<typename std::decay<A>::type...> pack(a...);
    auto it = table().find(std::make_pair(sender, std::string(id)));
    if (it == table().end()) return;
    if (++emit_depth() > 200) {
        put("\"ev\":\"runaway\",\"what\":\"signal recursion deeper than 200\"");
        fflush(stdout);
        _Exit(97);
    }
    auto conns = it->second;   // copy: slots may connect / disconnect
    for (auto &c : conns)
        if (c->alive) c->call(&pack);
    --emit_depth();
}

// call f with the first K elements of the tuple, K = the largest arity f accepts
template <class F, class Tuple, size_t... I> void call_with(F &f, const Tuple &t, std::index_sequence<I...>) {
    f(std::get<I>(t)...);
}
template <size_t K, class F, class Tuple, class = void> struct Invoker {
    static void run(F &f, const Tuple &t) { Invoker<K - 1, F, Tuple>::run(f, t); }
};
template <class F, class Tuple, class Seq> struct Accepts;
template <class F, class Tuple, size_t... I> struct Accepts<F, Tuple, std::index_sequence<I...>> {
    static const bool value = std::is_invocable<F &, typename std::tuple_element<I, Tuple>::type...>::value;
};
template <size_t K, class F, class Tuple>
struct Invoker<K, F, Tuple, typename std::enable_if<Accepts<F, Tuple, std::make_index_sequence<K>>::value>::type> {
    static void run(F &f, const Tuple &t) { call_with(f, t, std::make_index_sequence<K>()); }
};
template <class F, class Tuple> struct Invoker<0, F, Tuple, typename std::enable_if<!std::is_invocable<F &>::value>::type> {
    static void run(F &, const Tuple &) { static_assert(sizeof(F) == 0, "slot is not callable with any prefix of the signal arguments"); }
};

}  // namespace qvm

struct QMetaObject {
    struct Connection {
        std::shared_ptr<qvm::ConnData> d;
        explicit operator bool() const { return d && d->alive; }
    };
};

template <class... Args> struct QOverload {
    template <class R, class C> static constexpr auto of(R (C::*p)(Args...)) -> decltype(p) { return p; }
};

class QObject {
public:
    QObject() {}
    virtual ~QObject() {}
    std::string m_objectName;
    void setObjectName(const char *n) { m_objectName = n; }
    inline void setObjectName(const QString &n);   // the Q_PROPERTY setter
    inline QString objectName() const;

    template <class S, class C, class... A, class F>
    static QMetaObject::Connection connect(S *sender, void (C::*sig)(A...), QObject *context, F slot) {
        (void)context;
        QMetaObject::Connection conn;
        if (!sender) {
            qvm::put("\"ev\":\"connect-null\"");
            return conn;
        }
        // identify the signal behind the member pointer by a probe call
        qvm::probing() = true;
        qvm::probed().clear();
        (static_cast<C *>(sender)->*sig)(typename std::decay<A>::type()...);
        qvm::probing() = false;
        std::string id = qvm::probed();
        if (id.empty()) {
            qvm::put("\"ev\":\"connect-nonsignal\",\"obj\":" + qvm::jstr(qvm::objname(sender)));
            return conn;
        }
        typedef std::tuple<typename std::decay<A>::type...> Tuple;
        auto d = std::make_shared<qvm::ConnData>();
        d->sender = sender;
        d->signal = id;
        d->call = [slot](const void *p) mutable {
            qvm::Invoker<sizeof...(A), F, Tuple>::run(slot, *static_cast<const Tuple *>(p));
        };
        qvm::table()[std::make_pair(static_cast<const QObject *>(sender), id)].push_back(d);
        conn.d = d;
        qvm::put("\"ev\":\"connect\",\"obj\":" + qvm::jstr(qvm::objname(sender)) + ",\"signal\":" + qvm::jstr(id));
        return conn;
    }

    static bool disconnect(const QMetaObject::Connection &c) {
        if (!c.d || !c.d->alive) return false;
        c.d->alive = false;
        qvm::put("\"ev\":\"disconnect\",\"obj\":" + qvm::jstr(qvm::objname(c.d->sender)) + ",\"signal\":" + qvm::jstr(c.d->signal));
        return true;
    }
};

inline std::string qvm::objname(const QObject *o) { return o ? o->m_objectName : std::string("null"); }

#define QVM_SIGNAL(id, ...)                          \
    do {                                             \
        if (qvm::probing()) {                        \
            qvm::probed() = id;                      \
            return;                                  \
        }                                            \
        qvm::emit_signal(this, id, ##__VA_ARGS__);   \
    } while (0)

// ------------------------------------------------------------------------------------------
// QString: UTF-16 code units
class QString {
public:
    std::u16string d;
    QString() {}
    QString(const char16_t *s) : d(s) {}
    QString(const char16_t *s, size_t n) : d(s, n) {}
    explicit QString(const std::u16string &s) : d(s) {}
    static QString fromLatin1(const char *s) {
        QString r;
        for (; *s; ++s) r.d.push_back((unsigned char)*s);
        return r;
    }
    static QString fromUtf8(const char *s) {
        QString r;
        const unsigned char *p = (const unsigned char *)s;
        while (*p) {
            uint32_t c;
            if (*p < 0x80) c = *p++;
            else if ((*p >> 5) == 6) { c = ((p[0] & 31) << 6) | (p[1] & 63); p += 2; }
            else if ((*p >> 4) == 14) { c = ((p[0] & 15) << 12) | ((p[1] & 63) << 6) | (p[2] & 63); p += 3; }
            else { c = ((p[0] & 7) << 18) | ((p[1] & 63) << 12) | ((p[2] & 63) << 6) | (p[3] & 63); p += 4; }
            if (c >= 0x10000) { c -= 0x10000; r.d.push_back(0xD800 + (c >> 10)); r.d.push_back(0xDC00 + (c & 0x3ff)); }
            else r.d.push_back((char16_t)c);
        }
        return r;
    }
    // as in Qt (unless QT_NO_CAST_FROM_ASCII): assignment from a NUL-terminated UTF-8 string
    QString &operator=(const char *utf8) { d = fromUtf8(utf8).d; return *this; }
    bool isEmpty() const { return d.empty(); }
    int size() const { return (int)d.size(); }
    friend QString operator+(const QString &a, const QString &b) { return QString(a.d + b.d); }
    friend bool operator==(const QString &a, const QString &b) { return a.d == b.d; }
    friend bool operator!=(const QString &a, const QString &b) { return a.d != b.d; }
    friend bool operator<(const QString &a, const QString &b) { return a.d < b.d; }
    friend bool operator<=(const QString &a, const QString &b) { return a.d <= b.d; }
    friend bool operator>(const QString &a, const QString &b) { return a.d > b.d; }
    friend bool operator>=(const QString &a, const QString &b) { return a.d >= b.d; }

    // replaces every occurrence of the lowest numbered place marker %1..%99
    QString argStr(const QString &a) const {
        int lowest = 100;
        for (size_t i = 0; i + 1 < d.size(); ++i) {
            if (d[i] != u'%') continue;
            size_t j = i + 1;
            int n = 0, k = 0;
            while (j < d.size() && k < 2 && d[j] >= u'0' && d[j] <= u'9') { n = n * 10 + (d[j] - u'0'); ++j; ++k; }
            if (k > 0 && n > 0 && n < lowest) lowest = n;
        }
        if (lowest == 100) return *this;
        QString r;
        for (size_t i = 0; i < d.size();) {
            if (d[i] == u'%') {
                size_t j = i + 1;
                int n = 0, k = 0;
                while (j < d.size() && k < 2 && d[j] >= u'0' && d[j] <= u'9') { n = n * 10 + (d[j] - u'0'); ++j; ++k; }
                if (k > 0 && n == lowest) { r.d += a.d; i = j; continue; }
            }
            r.d.push_back(d[i++]);
        }
        return r;
    }
    QString arg(const QString &a) const { return argStr(a); }
    QString arg(int a) const { return argStr(fromLatin1(std::to_string(a).c_str())); }
    QString arg(uint a) const { return argStr(fromLatin1(std::to_string(a).c_str())); }
    QString arg(double a) const {
        char buf[64];
        snprintf(buf, sizeof buf, "%g", a);
        return argStr(fromLatin1(buf));
    }
};
#define QStringLiteral(str) QString(u"" str, sizeof(u"" str) / 2 - 1)

inline void QObject::setObjectName(const QString &n) {
    // object names identify objects in the event log: the model keeps the name given by the form
    qvm::put("\"ev\":\"write\",\"obj\":" + qvm::jstr(m_objectName) + ",\"prop\":\"objectName\",\"value\":{\"units\":" + std::to_string(n.d.size()) + "}");
}
inline QString QObject::objectName() const { return QString::fromUtf8(m_objectName.c_str()); }

namespace qvm {
template <> struct Show<QString> {
    static std::string of(const QString &v) {
        std::string s = "{\"s\":[";
        for (size_t i = 0; i < v.d.size(); ++i) { if (i) s += ","; s += std::to_string((unsigned)v.d[i]); }
        return s + "]}";
    }
};
}

template <class T> class QList {
public:
    std::vector<T> v;
    QList() {}
    QList(std::initializer_list<T> l) : v(l) {}
    bool isEmpty() const { return v.empty(); }
    int size() const { return (int)v.size(); }
    const T &at(int i) const {
        if (i < 0 || (size_t)i >= v.size()) {
            qvm::put("\"ev\":\"oob\",\"index\":" + std::to_string(i) + ",\"size\":" + std::to_string(v.size()));
            fflush(stdout);
            _Exit(96);
        }
        return v[(size_t)i];
    }
    T &operator[](int i) {
        if (i < 0 || (size_t)i >= v.size()) {
            qvm::put("\"ev\":\"oob\",\"index\":" + std::to_string(i) + ",\"size\":" + std::to_string(v.size()));
            fflush(stdout);
            _Exit(96);
        }
        return v[(size_t)i];
    }
    friend bool operator==(const QList &a, const QList &b) { return a.v == b.v; }
    friend bool operator!=(const QList &a, const QList &b) { return !(a.v == b.v); }
};
template <class T> using QVector = QList<T>;
typedef QList<QString> QStringList;

namespace qvm {
template <class T> struct Show<QList<T>> {
    static std::string of(const QList<T> &l) {
        std::string s = "{\"list\":[";
        for (size_t i = 0; i < l.v.size(); ++i) { if (i) s += ","; s += show(l.v[i]); }
        return s + "]}";
    }
};
}

class QVariant {
public:
    enum Kind { Invalid, Bool, Int, UInt, Double, String } k = Invalid;
    bool b = false; int i = 0; uint u = 0; double dbl = 0; QString s;
    QVariant() {}
    QVariant(bool x) : k(Bool), b(x) {}
    QVariant(int x) : k(Int), i(x) {}
    QVariant(uint x) : k(UInt), u(x) {}
    QVariant(double x) : k(Double), dbl(x) {}
    QVariant(const QString &x) : k(String), s(x) {}
    template <class T> T value() const;
    friend bool operator==(const QVariant &a, const QVariant &b2) {
        return a.k == b2.k && a.b == b2.b && a.i == b2.i && a.u == b2.u && a.dbl == b2.dbl && a.s == b2.s;
    }
    friend bool operator!=(const QVariant &a, const QVariant &b2) { return !(a == b2); }
};
template <> inline bool QVariant::value<bool>() const { return k == Bool ? b : k == Int ? i != 0 : false; }
template <> inline int QVariant::value<int>() const { return k == Int ? i : k == UInt ? (int)u : k == Bool ? (int)b : k == Double ? (int)dbl : 0; }
template <> inline uint QVariant::value<uint>() const { return k == UInt ? u : k == Int ? (uint)i : k == Bool ? (uint)b : 0; }
template <> inline double QVariant::value<double>() const { return k == Double ? dbl : k == Int ? i : k == UInt ? u : 0; }
template <> inline QString QVariant::value<QString>() const { return k == String ? s : QString(); }
namespace qvm {
template <> struct Show<QVariant> {
    static std::string of(const QVariant &v) {
        switch (v.k) {
        case QVariant::Bool: return "{\"v\":" + show(v.b) + "}";
        case QVariant::Int: return "{\"v\":" + show(v.i) + "}";
        case QVariant::UInt: return "{\"v\":" + show(v.u) + "}";
        case QVariant::Double: return "{\"v\":" + show(v.dbl) + "}";
        case QVariant::String: return "{\"v\":" + show(v.s) + "}";
        default: return "{\"v\":null}";
        }
    }
};
}

template <class E> class QFlags {
public:
    int v = 0;
    QFlags() {}
    QFlags(E e) : v((int)e) {}
    friend bool operator==(QFlags a, QFlags b) { return a.v == b.v; }
    friend bool operator!=(QFlags a, QFlags b) { return a.v != b.v; }
};
namespace qvm {
template <class E> struct Show<QFlags<E>> { static std::string of(QFlags<E> f) { return "{\"f\":" + std::to_string(f.v) + "}"; } };
}

class QCoreApplication {
public:
    static QString translate(const char *context, const char *source) {
        qvm::put("\"ev\":\"tr\",\"context\":" + qvm::jstr(context) + ",\"source\":" + qvm::jstr(source));
        return QString::fromUtf8(source);
    }
};

#define Q_UNLIKELY(x) (x)
#define Q_LIKELY(x) (x)
namespace qvm {
[[noreturn]] inline void unreachable(const char *func, int line) {
    put(std::string("\"ev\":\"unreachable\",\"func\":") + jstr(func) + ",\"line\":" + std::to_string(line));
    fflush(stdout);
    _Exit(98);
}
inline void assert_x(bool ok, const char *where, const char *what) {
    if (!ok) put(std::string("\"ev\":\"assert\",\"where\":") + jstr(where) + ",\"what\":" + jstr(what));
}
}
#define Q_UNREACHABLE() qvm::unreachable(__func__, __LINE__)
#define Q_ASSERT_X(cond, where, what) qvm::assert_x(!!(cond), where, what)

// logging of model calls (used by generated code)
namespace qvm {
template <class T> void log_write(const QObject *o, const char *prop, const T &v) {
    put("\"ev\":\"write\",\"obj\":" + jstr(objname(o)) + ",\"prop\":" + jstr(prop) + ",\"value\":" + show(v));
}
inline void log_read(const QObject *o, const char *prop) {
    put("\"ev\":\"read\",\"obj\":" + jstr(objname(o)) + ",\"prop\":" + jstr(prop));
}
template <class... A> void log_call(const QObject *o, const char *meth, const A &...a) {
    put("\"ev\":\"call\",\"obj\":" + jstr(objname(o)) + ",\"method\":" + jstr(meth) + ",\"args\":" + show_args(a...));
}
}
